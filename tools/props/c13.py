"""C13 - Downlink data notifications reach the control plane once per interval."""
from lib import *

TARGETS = ["Props/C13.vo", "Run/Eval_C13.vo"]
HEADER = ("From Coq Require Import NArith List.\nFrom UPF Require Import Model.Notifier Run.Eval_C13.\n"
          "Import ListNotations.\nOpen Scope N_scope.\n")

CORE, ACCESS, NOTIFY = 2, 1, 8
U64 = (1 << 64) - 1
BATCH = 48          # notifier scripts run concurrently per harness line


# ----------------------------------------------------------------------------- source tie

def source_intervals():
    """interval (ns) the two listeners give their notifier; None if the text is not recognised."""
    unit = {"Millisecond": 10 ** 6, "Second": 10 ** 9, "Minute": 60 * 10 ** 9}
    out = {}
    for key, fn in (("bess", "bess.go"), ("up4", "up4.go")):
        try:
            txt = open(os.path.join(REPO, "pfcpiface", fn)).read()
        except OSError:
            return None
        m = re.findall(r"NewDownlinkDataNotifier\(\s*[\w.]+\s*,\s*(\d+)\s*\*\s*time\.(Millisecond|Second|Minute)\s*\)", txt)
        if len(m) != 1:
            return None
        out[key] = int(m[0][0]) * unit[m[0][1]]
    return out


# ----------------------------------------------------------------------------- generators

def rand_fseid(rng):
    r = rng.random()
    if r < 0.08:
        return rng.choice([0, 1, 2, U64, U64 - 1, 1 << 63, 1 << 32, (1 << 32) - 1])
    if r < 0.3:
        return rng.randrange(1, 50)
    return rng.getrandbits(64)


def gen_script(rng, style):
    """A script whose NOMINAL gaps between a report and the last forwarded report of its session are
    <= 0.5 or >= 1.5 intervals (real gaps are measured by the harness)."""
    interval = rng.choice([40000, 40000, 40000, 30000, 60000])
    nsess = rng.randrange(1, 6)
    ids = []
    while len(ids) < nsess:
        if ids and rng.random() < 0.35:
            # a neighbour of an existing F-SEID: differs in one bit / by 2^32 (distinct sessions all the same)
            g = rng.choice(ids)
            f = rng.choice([g ^ 1, g ^ (1 << 31), g ^ (1 << 32), g ^ (1 << 63), (g + (1 << 32)) & U64, (g + 1) & U64])
        else:
            f = rand_fseid(rng)
        if f not in ids:
            ids.append(f)
    steps = []
    if style == "flood":                       # "however many reports arrive"
        n = rng.choice([100, 300])
        for _ in range(n):
            steps.append([rng.choice(ids), 0])
        # then, well after the interval, once more for everybody
        first = True
        for f in ids:
            steps.append([f, int(1.6 * interval) if first else 0])
            first = False
        return {"kind": "notifier", "interval_us": interval, "steps": steps, "cls": "flood"}
    T = 0.0                                    # nominal time in units of the interval
    F = {}
    nsteps = rng.randrange(4, 26)
    budget = 28.0
    for _ in range(nsteps):
        s = rng.choice(ids)
        if s not in F:
            d = rng.choice([0, 0, rng.uniform(0, 0.5), rng.uniform(0.5, 1.2)])
            T += d
            F[s] = T
        else:
            gap = T - F[s]
            r = rng.random()
            if r < 0.15 and gap <= 0.8:
                # closer to the boundary; the verdict uses the measured times, so jitter cannot raise an alarm
                g = rng.choice([rng.uniform(0.8, 0.97), rng.uniform(1.03, 1.25)])
            elif r < 0.6 and gap <= 0.5:
                g = gap + rng.choice([0, 0, rng.uniform(0, 0.5 - gap)])
            else:
                g = max(gap, 1.5) + rng.choice([0, rng.uniform(0, 0.6)])
            d = g - gap
            if T + d > budget:
                break
            T += d
            if g >= 1.0:
                F[s] = T
        steps.append([s, int(d * interval)])
    return {"kind": "notifier", "interval_us": interval, "steps": steps, "cls": f"mixed/{nsess}"}


PDR_IDS = [0, 1, 2, 3, 7, 65535, 65536, 65537, (1 << 32) - 1]
FAR_IDS = [0, 1, 2, 3, 4, (1 << 32) - 1]
ACT_NOTIFY = [8, 12, 10, 255, 9]
ACT_PLAIN = [2, 1, 4, 0, 0xF7, 6]


def gen_session(rng, local):
    remote = rng.choice([rng.getrandbits(64), rng.getrandbits(64), rng.randrange(1, 100), 0, U64, local])
    style = rng.random()
    pdrs, fars = [], []
    if style < 0.5:
        # the common shape: one uplink and one downlink PDR with their own FARs, any order
        up, dn = [ACCESS, rng.randrange(1, 65536), 1], [CORE, rng.randrange(1, 65536), 2]
        pdrs = [up, dn] if rng.random() < 0.5 else [dn, up]
        act_dn = rng.choice(ACT_NOTIFY) if rng.random() < 0.55 else rng.choice(ACT_PLAIN)
        act_up = rng.choice(ACT_NOTIFY + ACT_PLAIN)
        fars = [[1, act_up], [2, act_dn]]
        rng.shuffle(fars)
    elif style < 0.65:
        # several downlink PDRs
        n = rng.randrange(2, 5)
        for i in range(n):
            pdrs.append([CORE if rng.random() < 0.8 else ACCESS, rng.randrange(1, 65536), i + 1])
            fars.append([i + 1, rng.choice(ACT_NOTIFY) if rng.random() < 0.6 else rng.choice(ACT_PLAIN)])
        rng.shuffle(pdrs)
        rng.shuffle(fars)
    else:
        for _ in range(rng.randrange(0, 6)):
            pdrs.append([rng.choice([CORE, CORE, ACCESS, ACCESS, 0, 3, 255]),
                         rng.choice(PDR_IDS + [rng.randrange(1, 65536)] * 4),
                         rng.choice(FAR_IDS)])
        for _ in range(rng.randrange(0, 6)):
            fars.append([rng.choice(FAR_IDS), rng.choice(ACT_NOTIFY + ACT_PLAIN)])
    return {"local": local, "remote": remote, "pdrs": pdrs, "fars": fars}


def gen_store(rng, clean=False):
    n = rng.randrange(1, 6)
    sessions = []
    for _ in range(n):
        local = rand_fseid(rng)
        if clean:
            while local == 0 or any(s["local"] == local for s in sessions):
                local = rng.getrandbits(64)
        elif sessions and rng.random() < 0.07:
            local = rng.choice(sessions)["local"]          # PutSession replaces
        s = gen_session(rng, local)
        if clean:
            while session_demand(s) not in ("one", "none"):
                s = gen_session(rng, local)
        sessions.append(s)
    return sessions


SEQS = [0, 1, (1 << 24) - 2, (1 << 24) - 1, 1 << 24, (1 << 32) - 2, (1 << 32) - 1]


def gen_reports(rng, sessions, n):
    locals_ = [s["local"] for s in sessions]
    out = []
    for _ in range(n):
        r = rng.random()
        if r < 0.75:
            out.append(rng.choice(locals_))
        elif r < 0.85:
            out.append(0)
        else:
            f = rng.getrandbits(64)
            out.append(f)
    return out


def unknown_fseid(rng, sessions):
    while True:
        f = rng.getrandbits(64)
        if f != 0 and all(s["local"] != f for s in sessions):
            return f


def gen_digest(rng):
    sessions = gen_store(rng)
    return {"kind": "digest", "sessions": sessions,
            "seq0": rng.choice(SEQS + [rng.randrange(1 << 24)] * 6 + [rng.getrandbits(32)]),
            "reports": gen_reports(rng, sessions, rng.randrange(1, 9))}


def gen_serve(rng):
    sessions = gen_store(rng, clean=True)
    return {"kind": "serve", "has_assoc": rng.random() < 0.85, "sessions": sessions,
            "seq0": rng.choice(SEQS[:2] + [rng.randrange(1 << 23)] * 4),
            "reports": gen_reports(rng, sessions, rng.randrange(1, 12)), "flush": unknown_fseid(rng, sessions)}


def le8(f):
    return [(f >> (8 * i)) & 255 for i in range(8)]


def gen_bess(rng):
    pool = []
    for _ in range(rng.randrange(1, 5)):
        # full-length F-SEIDs use the top byte so that zero-padded short datagrams cannot collide with them
        pool.append(rng.getrandbits(64) | (rng.randrange(1, 256) << 56))
    if rng.random() < 0.3:
        # byte-order sensitive value
        pool.append(0x0100000000000002)
    ds = []
    for _ in range(rng.randrange(1, 14)):
        r = rng.random()
        f = rng.choice(pool)
        if r < 0.7:
            ds.append(le8(f))
        elif r < 0.85:
            ds.append(le8(f) + [rng.randrange(256) for _ in range(rng.choice([1, 8, 100, 504, 505, 600]))])
        else:
            ds.append([rng.randrange(256) for _ in range(rng.randrange(1, 8))])
    if rng.random() < 0.12:
        ds.insert(rng.randrange(len(ds) + 1), [])
    return {"kind": "bess", "datagrams": ds}


def be4(a):
    return [(a >> 24) & 255, (a >> 16) & 255, (a >> 8) & 255, a & 255]


def gen_up4(rng):
    fseids = [rand_fseid(rng) for _ in range(rng.randrange(1, 4))]
    ue_map = {}
    for _ in range(rng.randrange(1, 6)):
        ue_map[rng.choice([rng.getrandbits(32), (10 << 24) | rng.randrange(1, 20), 0x01000002])] = rng.choice(fseids)
    known = list(ue_map)
    digests = []
    for _ in range(rng.randrange(1, 14)):
        r = rng.random()
        if r < 0.7:
            a = rng.choice(known)
        elif r < 0.8:
            a = int.from_bytes(rng.choice(known).to_bytes(4, "big"), "little")      # byte-swapped
        else:
            a = rng.getrandbits(32)
        d = be4(a)
        if rng.random() < 0.15:
            d = d + [rng.randrange(256) for _ in range(rng.randrange(1, 5))]
        digests.append(d)
    while True:
        fl = rng.getrandbits(32)
        if fl not in ue_map:
            break
    return {"kind": "up4", "ue_map": [[k, v] for k, v in ue_map.items()], "digests": digests, "flush_ue": be4(fl)}


def gen_cases(rng, tier):
    q = tier == "quick"
    cases = []
    for i in range(96 if q else 480):
        cases.append(gen_script(rng, "flood" if i % 16 == 15 else "mixed"))
    # the reader of the report channel is late and the channel fills up ("however many reports arrive"): first reports of
    # distinct sessions, more of them than the channel holds - every one must arrive once the reader runs. Capacities 1, 3
    # and the agent's own (reportNotifyChan: 1024).
    for cap, extra in ((1, 4), (3, 17), (1024, 300)) + (() if q else ((1024, 3000), (2, 50))):
        ids = []
        while len(ids) < cap + extra:
            f = rand_fseid(rng)
            if f not in ids:
                ids.append(f)
        cases.append({"kind": "notifier", "interval_us": 60000000, "steps": [[f, 0] for f in ids], "cls": f"backlog/{cap}",
                      "cap": cap, "stall_us": 20000})
    for _ in range(500 if q else 5000):
        cases.append(gen_digest(rng))
    for _ in range(60 if q else 300):
        cases.append(gen_serve(rng))
    for _ in range(60 if q else 300):
        cases.append(gen_bess(rng))
    for _ in range(40 if q else 200):
        cases.append(gen_up4(rng))
    return cases


# ----------------------------------------------------------------------------- the property on observations

def pdr_status(s, p):
    """does the forwarding rule of downlink PDR p ask for notification?  asks / refuses / unclear"""
    if not (1 <= p[1] <= 65535):
        return "unclear"
    acts = [a for fid, a in s["fars"] if fid == p[2]]
    if not acts:
        return "unclear"                       # PDR points to a FAR the session does not have
    if all(a & NOTIFY for a in acts):
        return "asks"
    if not any(a & NOTIFY for a in acts):
        return "refuses"
    return "unclear"                           # several FARs share the id and disagree


def session_demand(s):
    """what the statement demands for a report of this session: 'one', 'none' or 'open'"""
    core = [p for p in s["pdrs"] if p[0] == CORE]
    if not core:
        return "none"
    st = {pdr_status(s, p) for p in core}
    if st == {"asks"}:
        return "one"
    if st == {"refuses"}:
        return "none"
    return "open"


def effective_store(sessions):
    """InMemoryStore semantics as documented on the interface: keyed by local SEID, later Put replaces, 0 refused"""
    st = {}
    for s in sessions:
        if s["local"] != 0:
            st[s["local"]] = s
    return st


def check_msg(m, s, seen_seq):
    if not m.get("ok"):
        return ("srr-malformed", "message written is not a well-formed Session Report Request: " + str(m.get("why")))
    if m["seid"] != s["remote"]:
        return ("srr-wrong-seid", f"header SEID {m['seid']} is not the control plane's SEID {s['remote']}")
    if m["report_type"] != 1:
        return ("srr-report-type", f"report type {m['report_type']} is not DLDR")
    if len(m["pdr_ids"]) != 1:
        return ("srr-pdr-count", f"{len(m['pdr_ids'])} PDR IDs in the Downlink Data Report")
    core_ids = {p[1] % 65536 for p in s["pdrs"] if p[0] == CORE}
    if m["pdr_ids"][0] not in core_ids:
        return ("srr-not-downlink-pdr", f"reported PDR {m['pdr_ids'][0]} is not a downlink PDR of the session")
    if m["seq"] in seen_seq:
        return ("srr-seq-reused", f"sequence number {m['seq']} used twice on the connection")
    return None


def monitor_reports(sessions, reports, per_report_msgs, n_reports_bound=True):
    """per_report_msgs: list (per report) of decoded messages"""
    st = effective_store(sessions)
    seen = set()
    for f, msgs in zip(reports, per_report_msgs):
        s = st.get(f)
        if s is None:
            if msgs:
                return ("message-for-unknown-session", f"report for unknown F-SEID {f} produced {len(msgs)} message(s)")
            continue
        if len(msgs) > 1:
            return ("more-than-one-message", f"{len(msgs)} messages for one report")
        dem = session_demand(s)
        if dem == "one" and not msgs:
            return ("notification-missing", "downlink rule asks for notification, no Session Report Request was sent")
        if dem == "none" and msgs:
            return ("notification-unwanted", "no downlink rule asks for notification, a Session Report Request was sent")
        for m in msgs:
            bad = check_msg(m, s, seen)
            if bad:
                return bad
            seen.add(m["seq"])
    return None


def monitor_notifier(c, o):
    I = c["interval_us"] * 1000
    last = {}                                   # fseid -> window of the last forwarded report
    for (f, _), e in zip(c["steps"], o["events"]):
        got = e["got"]
        if len(got) > 1 or (got and got[0] != f):
            return ("notifier-foreign-value", f"Notify({f}) put {got} on the channel")
        if f not in last:
            if not got:
                return ("first-report-suppressed", f"first report for session {f} was suppressed")
            last[f] = (e["lo"], e["hi"])
            continue
        plo, phi = last[f]
        if got:
            if e["hi"] - plo < I:
                return ("two-notifications-within-interval",
                        f"session {f}: forwarded at <= {e['hi']} ns after one forwarded at >= {plo} ns, interval {I} ns")
            last[f] = (e["lo"], e["hi"])
        else:
            if e["lo"] - phi >= I:
                return ("suppressed-after-interval",
                        f"session {f}: report at >= {e['lo']} ns suppressed, last forwarded at <= {phi} ns, interval {I} ns")
    return None


def first_occurrences(xs):
    seen, out = set(), []
    for x in xs:
        if x not in seen:
            seen.add(x)
            out.append(x)
    return out


def monitor_bess(c, o):
    ds = c["datagrams"]
    if [] in ds:
        ds = ds[:ds.index([])]                  # a zero-length datagram ends the listener (EOF); not part of the statement
    full = [sum(b << (8 * i) for i, b in enumerate(d[:8])) for d in ds if len(d) >= 8]
    want = first_occurrences(full)
    got = [v for v in o["chan"] if v >> 56]      # short datagrams decode below 2^56 by construction
    if got != want:
        return ("bess-event-decoding", f"8-byte little-endian events {want} arrived on the report channel as {got}")
    return None


def monitor_up4(c, o):
    m = {k: v for k, v in c["ue_map"]}
    fs = []
    for d in c["digests"]:
        a = (d[0] << 24) | (d[1] << 16) | (d[2] << 8) | d[3]
        if a in m:
            fs.append(m[a])
    want = first_occurrences(fs)
    if o["chan"] != want:
        return ("up4-digest-decoding", f"digests for sessions {want} arrived on the report channel as {o['chan']}")
    return None


def monitor_serve(c, o):
    if not c["has_assoc"]:
        return None
    st = effective_store(c["sessions"])
    # sessions are 'clean' (demand one / none), so the per-report attribution of the flat write list is determined
    msgs = list(o["writes"])
    per = []
    for f in c["reports"]:
        s = st.get(f)
        if s is not None and session_demand(s) == "one" and msgs:
            per.append([msgs.pop(0)])
        else:
            per.append([])
    bad = monitor_reports(c["sessions"], c["reports"], per)
    if bad:
        return bad
    if msgs:
        return ("serve-extra-messages", f"{len(msgs)} Session Report Request(s) beyond those the reports call for")
    return None


def monitor(c, o, intervals):
    if "panic" in o:
        return ("panic", "panicked: " + str(o["panic"]))
    k = c["kind"]
    if k == "notifier":
        return monitor_notifier(c, o)
    if k == "digest":
        return monitor_reports(c["sessions"], c["reports"], o["writes"])
    if k == "serve":
        return monitor_serve(c, o)
    if k == "bess":
        if o["elapsed_ms"] * 10 ** 6 * 2 >= intervals["bess"]:
            return None
        return monitor_bess(c, o)
    if k == "up4":
        if o["elapsed_ms"] * 10 ** 6 * 2 >= intervals["up4"]:
            return None
        return monitor_up4(c, o)
    return None


# ----------------------------------------------------------------------------- Gallina

def g_sessions(ss):
    out = []
    for s in ss:
        pdrs = glist([f"Pdr {p[0]} {p[1]} {p[2]}" for p in s["pdrs"]])
        fars = glist([f"Far {f[0]} {f[1]}" for f in s["fars"]])
        out.append(f"Session {s['local']} {s['remote']} {pdrs} {fars}")
    return glist(out)


def g_omsg(m):
    rt = m["report_type"] if m["report_type"] >= 0 else 999
    return f"({gbool(m['ok'])}, Srr {m['seid']} {m['seq']} {rt} {glist([str(x) for x in m['pdr_ids']])})"


def g_nums(xs):
    return glist([str(x) for x in xs])


def to_coq(c, o, intervals):
    k = c["kind"]
    if k == "notifier":
        evs = glist([f"Wev {f} {e['lo']} {e['hi']} {g_nums(e['got'])}" for (f, _), e in zip(c["steps"], o["events"])])
        return f"CNotifier {c['interval_us'] * 1000} {evs}"
    if k == "digest":
        obs = glist([glist([g_omsg(m) for m in ms]) for ms in o["writes"]])
        return f"CDigest {g_sessions(c['sessions'])} {c['seq0']} {g_nums(c['reports'])} {obs} {o['seq_end']}"
    if k == "serve":
        obs = glist([g_omsg(m) for m in o["writes"]])
        return (f"CServe {gbool(c['has_assoc'])} {g_sessions(c['sessions'])} {c['seq0']} {g_nums(c['reports'])} "
                f"{obs} {o['seq_end']}")
    if k == "bess":
        return f"CBess {intervals['bess']} {glist([g_nums(d) for d in c['datagrams']])} {g_nums(o['chan'])}"
    if k == "up4":
        m = glist([f"({a}, {f})" for a, f in c["ue_map"]])
        return f"CUp4 {intervals['up4']} {m} {glist([g_nums(d) for d in c['digests']])} {g_nums(o['chan'])}"
    raise ValueError(k)


# ----------------------------------------------------------------------------- driver

def harness_inputs(cases):
    """notifier scripts are batched (one line = scripts run concurrently); returns (lines, slots)
    where slots[i] = (line index, position in batch or None)"""
    lines, slots = [], []
    batch = None
    for c in cases:
        if c["kind"] == "notifier":
            if batch is None or len(lines[batch]["scripts"]) >= BATCH:
                lines.append({"kind": "notifier", "scripts": []})
                batch = len(lines) - 1
            slots.append((batch, len(lines[batch]["scripts"])))
            lines[batch]["scripts"].append({"interval_us": c["interval_us"], "steps": c["steps"],
                                            "cap": c.get("cap", 0), "stall_us": c.get("stall_us", 0)})
        else:
            slots.append((len(lines), None))
            lines.append({k: v for k, v in c.items() if k != "cls"})
    return lines, slots


def observe(cases):
    lines, slots = harness_inputs(cases)
    raw = run_harness(build_harness(), "c13", lines)
    obs = []
    for (li, pos), c in zip(slots, cases):
        r = raw[li]
        if "harness_error" in r:
            raise HarnessError(f"harness error on a {c['kind']} case: {r['harness_error']}")
        if pos is not None and "panic" not in r:
            r = r["scripts"][pos]
        obs.append(r)
    return obs


def classify(c, o):
    k = c["kind"]
    if k == "notifier":
        fw = sum(1 for e in o.get("events", []) if e["got"])
        sup = sum(1 for e in o.get("events", []) if not e["got"])
        return f"notifier/{c['cls']}", fw >= 2 and sup >= 1
    if k in ("digest", "serve"):
        st = effective_store(c["sessions"])
        kinds = set()
        for f in c["reports"]:
            s = st.get(f)
            kinds.add("unknown" if s is None else session_demand(s))
        return f"{k}/" + "+".join(sorted(kinds)), bool(kinds - {"unknown"})
    if k == "bess":
        return "bess/" + ("eof" if [] in c["datagrams"] else "plain"), len(o.get("chan", [])) >= 1
    return "up4", len(o.get("chan", [])) >= 1


def run(tier, seed, replay=None):
    ck = Check("C13", tier, seed)
    ck.trusted = COMMON_TRUSTED + [
        "harness/go/verif_c13_test.go: in-memory net.Conn, metrics and datapath fakes; go-pfcp decodes the captured messages; "
        "a unixpacket socket pair stands in for BESS; a READY grpc.ClientConn to an empty in-process server and the "
        "P4rtClient.digests channel stand in for the P4Runtime stream",
        "time.Now/time.Since monotonic readings; the harness measures a window around each Notify call"]
    ck.assumptions = [
        "each notifier is called by one goroutine (notifyListen / listenToDDNs), so calls are sequential; the sync.Map is "
        "modelled as a unique-key association list",
        "clock readings of consecutive calls are non-decreasing (monotonic clock); their values are arbitrary",
        "one association (node.go documents routing by SEID as not implemented); sync.Map.Range order is not modelled",
        "go-pfcp encoding is outside the model: messages are compared after decoding with go-pfcp",
        "a UP4 digest shorter than 4 bytes panics in the listener goroutine (model: DCrash); it is not exercised because the "
        "panic cannot be recovered in-process"]
    ck.rule = ("seeded generators: real-time notifier scripts over 1-5 sessions with nominal gaps <= 0.5 or >= 1.5 intervals and "
               "floods of 100-300 reports (windows measured around every call); handleDigestReport on stores of 1-5 sessions "
               "(known / unknown / replaced / SEID 0, PDR lists in any order with uplink, downlink and odd source interfaces, PDR "
               "ids 0 / >65535, duplicate and dangling FAR ids, apply-action bits with and without NOTIFY, sequence counters at "
               "the 24- and 32-bit boundaries); Serve with zero or one association; BESS datagrams of 0-608 bytes; UP4 digests "
               "for known, unknown and byte-swapped UE addresses. distinct = distinct input; non-trivial = notifier: >= 2 "
               "forwarded and >= 1 suppressed, reports: at least one known session, listeners: something reached the channel")
    ck.prove(TARGETS)
    intervals = source_intervals()
    ck.tie("source tie: bess.go and up4.go construct their notifier with a literal interval", intervals is not None,
           "" if intervals else "NewDownlinkDataNotifier(<chan>, <n> * time.<unit>) not found exactly once in bess.go / up4.go")
    if intervals is None:
        intervals = {"bess": 20 * 10 ** 9, "up4": 20 * 10 ** 9}
    ck.notes["listener_intervals_ns"] = intervals
    rng = rng_for(seed, "C13")
    cases = gen_cases(rng, tier) if replay is None else [json.load(open(replay))["case"]["input"]]
    try:
        obs = observe(cases)
    except HarnessError as e:
        ck.tie("harness builds and runs against the current tree", False, str(e)[-1500:])
        return ck.finish()
    ck.tie("harness builds and runs against the current tree", True)
    dist = {}
    skipped = 0
    for c, o in zip(cases, obs):
        key, nt = classify(c, o)
        dist[key] = dist.get(key, 0) + 1
        ck.count({k: v for k, v in c.items() if k != "cls"}, nt)
        if c["kind"] in ("bess", "up4") and "panic" not in o and o["elapsed_ms"] * 10 ** 6 * 2 >= intervals[c["kind"]]:
            skipped += 1
        m = monitor(c, o, intervals)
        if m:
            ck.fail(m[0], m[1], {"input": c, "impl": o})
    ck.distribution = dist
    n_listen = sum(1 for c in cases if c["kind"] in ("bess", "up4"))
    ck.notes["listener_cases_slower_than_half_interval"] = skipped
    if n_listen >= 10:
        ck.tie("listener cases finish well inside one notification interval", skipped * 2 <= n_listen,
               f"{skipped}/{n_listen} cases took longer than half the listener's interval")
    ck.samples = [{"input": c, "impl": o} for c, o in list(zip(cases, obs)) if c["kind"] != "notifier"][-3:]
    name = "correspondence: model = implementation (notifier decisions within measured windows, messages, channel contents)"
    try:
        kept = [(c, o) for c, o in zip(cases, obs) if "panic" not in o and not (
            c["kind"] in ("bess", "up4") and o["elapsed_ms"] * 10 ** 6 * 2 >= intervals[c["kind"]])]
        terms = [to_coq(c, o, intervals) for c, o in kept]
        idx = coq_eval_shards("C13", HEADER, terms, shard=120)
        for i in idx:
            c = {k: v for k, v in kept[i][0].items()}
            ck.mismatch(f"model and implementation disagree on a {c['kind']} case", {"input": c, "impl": kept[i][1]})
        ck.tie(name, not idx, f"{len(idx)} mismatching cases" if idx else "")
        nidx = [i for i, (c, o) in enumerate(kept) if c["kind"] == "notifier"]
        if nidx:
            events = sum(len(kept[i][0]["steps"]) for i in nidx)
            dec = coq_eval_shards("C13d", HEADER, [terms[i] for i in nidx], shard=10 ** 6, result_name="D",
                                  expr="[fold_right N.add 0 (map decisive cases)]")
            ck.notes["notifier_events"] = events
            ck.notes["notifier_events_decided_by_measured_window"] = dec[0] if dec else 0
    except RuntimeError as e:
        ck.tie(name, False, str(e)[-800:])
    # agent level (L1 harness: real handlers, real bess plug-in): the report is addressed with the control plane's current
    # SEID also after a Session Modification changed the CP F-SEID
    if replay is None:
        try:
            import l1
            from props.l1common import run_soak
            d2 = {}
            run_soak(ck, build_harness(), rng, l1.mon_c13_reports, d2, scenarios=l1.report_scenarios(rng))
            ck.notes["agent_level_report_scenarios"] = d2
        except HarnessError as e:
            ck.tie("agent-level report scenarios run", False, str(e)[-800:])
    # UP4: the digest listener and its rate-limit memory survive the loss and re-establishment of the P4Runtime channel
    if replay is None:
        try:
            o = run_harness(build_harness(), "c13", [{"kind": "up4_reconnect"}], tag="c13up4rc", timeout=300)[0]
            ck.evaluations += 1
            if "panic" in o:
                ck.fail("up4-reconnect:panic", "UP4 re-connection panicked: " + o["panic"], {"input": {"kind": "up4_reconnect"}})
            elif "listeners" in o and any(n != 1 for n in o["listeners"]):
                ck.fail("up4-reconnect:digest-listeners-multiply", f"digest listeners after 0..3 re-connections of the P4Runtime channel: {o['listeners']} "
                        "(each listener keeps its own per-session timestamps, so a session notified before a re-connection is notified again inside its interval)",
                        {"input": {"kind": "up4_reconnect"}, "impl": o})
            ck.notes["up4_reconnect"] = o
        except HarnessError as e:
            ck.tie("UP4 re-connection scenario runs", False, str(e)[-800:])
    # fresh sequence numbers under concurrency: the report path, the heartbeat monitor and an agent-initiated association
    # request of ONE association draw from the same counter on different goroutines
    if replay is None:
        try:
            for seq0 in (0, (1 << 24) - 40000, rng.randrange(1 << 24)):
                o = run_harness(build_harness(), "c13", [{"kind": "seqstress", "sessions": [], "seq0": seq0}], tag="c13seq")[0]
                ck.evaluations += 1
                if "panic" in o:
                    ck.fail("seq-stress:panic", f"concurrent getSeqNum panicked: {o['panic']}", {"input": {"kind": "seqstress", "seq0": seq0}})
                elif o.get("dups") or o.get("distinct") != o.get("n"):
                    ck.fail("seq-not-fresh-under-concurrency", f"{o.get('n')} sequence numbers drawn by 8 goroutines of one association from counter {seq0}: "
                            f"{o.get('dups')} handed out more than once (e.g. {o.get('first_dup')})", {"input": {"kind": "seqstress", "seq0": seq0}, "impl": o})
            ck.notes["seq_stress"] = "3 x 96000 draws by 8 goroutines: all distinct"
        except HarnessError as e:
            ck.tie("sequence-number stress runs", False, str(e)[-800:])
    return ck.finish()
