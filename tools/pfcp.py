"""Minimal PFCP (3GPP TS 29.244) encoder used by the L1 case generators: messages are built as bytes
for the real agent; the decoded view of what was built is kept by the generator for the model."""
import struct

# message types
HB_REQ, HB_RSP, PFD_REQ, PFD_RSP, AS_REQ, AS_RSP, AU_REQ, AU_RSP, AR_REQ, AR_RSP = 1, 2, 3, 4, 5, 6, 7, 8, 9, 10
SE_REQ, SE_RSP, SM_REQ, SM_RSP, SD_REQ, SD_RSP, SR_REQ, SR_RSP = 50, 51, 52, 53, 54, 55, 56, 57
RESPONSE_OF = {HB_REQ: HB_RSP, PFD_REQ: PFD_RSP, AS_REQ: AS_RSP, AR_REQ: AR_RSP, SE_REQ: SE_RSP, SM_REQ: SM_RSP, SD_REQ: SD_RSP}
SESSION_TYPES = {SE_REQ, SE_RSP, SM_REQ, SM_RSP, SD_REQ, SD_RSP, SR_REQ, SR_RSP}

# IE types
CREATE_PDR, PDI, CREATE_FAR, FWD_PARAMS, CREATE_QER = 1, 2, 3, 4, 7
UPDATE_PDR, UPDATE_FAR, UPD_FWD_PARAMS, UPDATE_QER = 9, 10, 11, 14
REMOVE_PDR, REMOVE_FAR, REMOVE_QER = 15, 16, 18
CAUSE, SRC_IFACE, FTEID, NETWORK_INSTANCE, SDF_FILTER, APP_ID, GATE_STATUS, MBR, GBR = 19, 20, 21, 22, 23, 24, 25, 26, 27
PRECEDENCE, DST_IFACE, APPLY_ACTION, SMREQ_FLAGS = 29, 42, 44, 49
PDR_ID, FSEID, APP_IDS_PFDS, PFD_CONTEXT, NODE_ID, PFD_CONTENTS = 56, 57, 58, 59, 60, 61
OHC, UE_IP, OHR, RECOVERY_TS, FAR_ID, QER_ID, QFI = 84, 93, 95, 96, 108, 109, 124
REPORT_TYPE = 39

CAUSE_ACCEPTED, CAUSE_REJECTED, CAUSE_CTX_NOT_FOUND, CAUSE_MANDATORY_MISSING = 1, 64, 65, 66
CAUSE_NO_ASSOC, CAUSE_NO_RESOURCES = 72, 75
IFACE_ACCESS, IFACE_CORE = 0, 1


def ie(t, payload=b""):
    return struct.pack("!HH", t, len(payload)) + payload


def grouped(t, *kids):
    return ie(t, b"".join(kids))


def u8(t, v):
    return ie(t, struct.pack("!B", v & 0xFF))


def u16(t, v):
    return ie(t, struct.pack("!H", v & 0xFFFF))


def u32(t, v):
    return ie(t, struct.pack("!I", v & 0xFFFFFFFF))


def ip4(n):
    return struct.pack("!I", n & 0xFFFFFFFF)


def node_id_v4(addr):
    return ie(NODE_ID, b"\x00" + ip4(addr))


def node_id_fqdn(name):
    b = b""
    if name:
        for lab in name.split("."):
            b += bytes([len(lab)]) + lab.encode()
    return ie(NODE_ID, b"\x02" + b)


def recovery_ts(unix_seconds):
    return u32(RECOVERY_TS, unix_seconds + 2208988800)


def fseid(seid, v4=None, v6=None):
    flags = (2 if v4 is not None else 0) | (1 if v6 is not None else 0)
    p = bytes([flags]) + struct.pack("!Q", seid)
    if v4 is not None:
        p += ip4(v4)
    if v6 is not None:
        p += v6
    return ie(FSEID, p)


def fteid(teid=0, v4=None, choose=False, v6=None):
    if choose:
        flags = 0x04 | (1 if v6 is None else 2)
        return ie(FTEID, bytes([flags]))
    flags = (1 if v4 is not None else 0) | (2 if v6 is not None else 0)
    p = bytes([flags]) + struct.pack("!I", teid)
    if v4 is not None:
        p += ip4(v4)
    if v6 is not None:
        p += v6
    return ie(FTEID, p)


def ue_ip(flags, v4=None, v6=None):
    p = bytes([flags])
    if v4 is not None:
        p += ip4(v4)
    if v6 is not None:
        p += v6
    return ie(UE_IP, p)


def sdf_filter(text):
    t = text.encode()
    return ie(SDF_FILTER, b"\x01\x00" + struct.pack("!H", len(t)) + t)


def app_id(s):
    return ie(APP_ID, s.encode())


def ohc(teid, v4=None, v6=None):
    if v6 is not None and v4 is None:
        return ie(OHC, b"\x02\x00" + struct.pack("!I", teid) + v6)
    return ie(OHC, b"\x01\x00" + struct.pack("!I", teid) + ip4(v4 or 0))


def rate(t, ul, dl):
    return ie(t, ul.to_bytes(5, "big") + dl.to_bytes(5, "big"))


def gate(ul, dl):
    return u8(GATE_STATUS, ((ul & 3) << 2) | (dl & 3))


def pfd_contents(flow=None, url=None):
    flags = (1 if flow is not None else 0) | (2 if url is not None else 0)
    p = bytes([flags, 0])
    if flow is not None:
        p += struct.pack("!H", len(flow.encode())) + flow.encode()
    if url is not None:
        p += struct.pack("!H", len(url.encode())) + url.encode()
    return ie(PFD_CONTENTS, p)


def message(mtype, seq, ies=b"", seid=None, force_s=None):
    """seid=None -> node message (S=0)."""
    s = (seid is not None) if force_s is None else force_s
    body = b""
    if s:
        body += struct.pack("!Q", seid or 0)
    body += (seq & 0xFFFFFF).to_bytes(3, "big") + b"\x00"
    body += ies if isinstance(ies, bytes) else b"".join(ies)
    return bytes([0x20 | (1 if s else 0), mtype]) + struct.pack("!H", len(body)) + body
