#!/usr/bin/env python3
"""Validate a seeded change and run the checks against it.

  python3 tools/seedtest.py <dir with patch.diff [+ demo files + notes.txt]> <property id> [--checks C03,C05] [--tier quick]

Uses a scratch worktree of /repo (default /tmp/rw-seed; created on demand, reset before and after), never /repo itself:
  1. the patch applies to a clean tree at /repo's HEAD,
  2. the repository's own test suite still passes with it,
  3. the demonstration (zz_seed_demo_test.go or any *_test.go in the dir) fails with it and passes without it,
  4. the property's quick check (VERIF_REPO=<worktree>) reports a VIOLATION with it.
Prints a JSON summary on the last line."""
import argparse
import glob
import json
import os
import shutil
import subprocess
import sys
import time

sys.path.insert(0, os.path.dirname(os.path.abspath(__file__)))
import lib  # noqa: E402

SUITE = ["go", "test", "-vet=off", "-count=1", "./cmd/...", "./internal/...", "./pfcpiface/...", "./pkg/..."]


def sh(cmd, cwd, env=None, timeout=1800):
    p = subprocess.run(cmd, cwd=cwd, env=env, stdout=subprocess.PIPE, stderr=subprocess.STDOUT, text=True, errors="replace", timeout=timeout)
    return p.returncode, p.stdout


def reset(wt):
    sh(["git", "checkout", "-q", "--", "."], wt)
    sh(["git", "clean", "-fdq"], wt)


def main():
    ap = argparse.ArgumentParser()
    ap.add_argument("dir")
    ap.add_argument("prop")
    ap.add_argument("--checks")
    ap.add_argument("--tier", default="quick")
    ap.add_argument("--worktree", default="/tmp/rw-seed")
    ap.add_argument("--skip-demo", action="store_true")
    a = ap.parse_args()
    wt = a.worktree
    if not os.path.isdir(wt):
        rc, out = sh(["git", "-C", "/repo", "worktree", "add", "-q", wt, "HEAD"], "/")
        if rc:
            print(out)
            sys.exit(2)
    sh(["git", "checkout", "-q", "--detach", subprocess.check_output(["git", "-C", "/repo", "rev-parse", "HEAD"], text=True).strip()], wt)
    reset(wt)
    env = lib.go_env()
    res = {"dir": a.dir, "property": a.prop}
    patch = os.path.join(a.dir, "patch.diff")
    demos = [f for f in glob.glob(os.path.join(a.dir, "*_test.go"))]

    pydemos = sorted(glob.glob(os.path.join(a.dir, "demo*.py")))

    def run_demo():
        if pydemos and not demos:
            # Python demonstrations (conf/route_control.py): `python3 demo.py <tree>`, exit 0 = passes
            rc_all, outs = 0, ""
            for d in pydemos:
                rc, out = sh([sys.executable, d, wt], a.dir, timeout=600)
                rc_all |= rc
                outs += out
            return rc_all, outs[-1500:]
        if not demos:
            return None, "no demo"
        # a demonstration goes next to the code it tests: package main = the constants generator, else package pfcpiface
        pkg = "cmd/p4info_code_gen" if any("package main" in open(d, errors="replace").read()[:3000] for d in demos) else "pfcpiface"
        for d in demos:
            shutil.copy(d, os.path.join(wt, pkg, os.path.basename(d)))
        rc, out = sh(["go", "test", "-vet=off", "-count=1", "-run", "Seed|Demo|seed|demo", "./" + pkg + "/"], wt, env)
        for d in demos:
            os.remove(os.path.join(wt, pkg, os.path.basename(d)))
        return rc, out[-1500:]

    if not a.skip_demo:
        rc, out = run_demo()
        res["demo_clean_passes"] = (rc == 0) if rc is not None else None
    rc, out = sh(["git", "apply", patch], wt)
    res["applies"] = rc == 0
    if rc:
        print(out)
        print(json.dumps(res))
        sys.exit(1)
    rc, out = sh(SUITE, wt, env)
    res["suite_passes"] = rc == 0
    if rc:
        res["suite_tail"] = out[-800:]
    if not a.skip_demo:
        rc, out = run_demo()
        res["demo_fails_with_patch"] = (rc != 0) if rc is not None else None
        res["demo_tail"] = out[-600:] if out else None
    checks = (a.checks or a.prop).split(",")
    env2 = dict(os.environ)
    env2["VERIF_REPO"] = wt
    tagdir = os.path.join(lib.VERIF, "build", "seed-" + os.path.basename(wt.rstrip("/")))
    env2["VERIF_BUILD_DIR"] = tagdir
    env2["VERIF_EVIDENCE_DIR"] = os.path.join(tagdir, "evidence")
    env2["VERIF_REPLAYS_DIR"] = os.path.join(tagdir, "replays")
    # own copy of the Coq tree (with its compiled files): generated files and case files of concurrent runs must not mix
    coqcopy = os.path.join(tagdir, "coq")
    shutil.rmtree(coqcopy, ignore_errors=True)
    os.makedirs(tagdir, exist_ok=True)
    subprocess.run(["cp", "-a", os.path.join(lib.VERIF, "coq"), coqcopy], check=True)
    env2["VERIF_COQ_DIR"] = coqcopy
    res["checks"] = {}
    for c in checks:
        t0 = time.time()
        rc, out = sh([sys.executable, os.path.join(lib.VERIF, "tools", "check.py"), c, "--tier", a.tier], lib.VERIF, env2, timeout=3600)
        lines = [l for l in out.split("\n") if l.startswith("VIOLATION") or l.startswith("[" + c)]
        res["checks"][c] = {"exit": rc, "violation": any(l.startswith("VIOLATION") for l in lines), "lines": lines[:6], "wall": round(time.time() - t0, 1)}
    reset(wt)
    print(json.dumps(res, indent=1))


if __name__ == "__main__":
    main()
