#!/usr/bin/env python3
"""Regenerates the tables of DESIGN.md section 10 ("as built") between the GENERATED markers from the repository
state: claims, Props/*.v, evidence/*.json, known_findings.json + findings.d/*.json, seeded/*/meta.json."""
import glob
import json
import os
import re

V = os.path.dirname(os.path.dirname(os.path.abspath(__file__)))
BEGIN, END = "<!-- BEGIN GENERATED STATUS -->", "<!-- END GENERATED STATUS -->"


def props():
    return {json.loads(l)["id"]: json.loads(l) for l in open(os.path.join(V, "properties.jsonl"))}


def theorems(pid):
    f = os.path.join(V, "coq", "Props", pid + ".v")
    if not os.path.exists(f):
        return [], [], []
    names = re.findall(r"^\s*Theorem\s+(\w+)", open(f).read(), flags=re.M)
    refuted = [n for n in names if "refuted" in n]
    partial = [n for n in names if "partial" in n]
    full = [n for n in names if n not in refuted and n not in partial]
    return full, partial, refuted


def known():
    out = json.load(open(os.path.join(V, "known_findings.json")))
    for f in sorted(glob.glob(os.path.join(V, "findings.d", "*.json"))):
        out += json.load(open(f))
    return out


def cell(s, n=220):
    s = re.sub(r"\s+", " ", str(s)).replace("|", "/")
    return s if len(s) <= n else s[:n - 1] + "…"


def main():
    P = props()
    K = known()
    lines = []
    lines.append("### 10.1 Status per property (generated)\n")
    lines.append("| id | title | theorems in `coq/Props` (full / partial / refuted) | quick run: evaluations, wall | known findings | technique |")
    lines.append("|---|---|---|---|---|---|")
    for pid in sorted(P):
        claim = os.path.join(V, "tools", "claims", pid + ".json")
        full, part, ref = theorems(pid)
        ev = os.path.join(V, "evidence", pid + ".json")
        evs = ""
        if os.path.exists(ev):
            e = json.load(open(ev))
            evs = f"{e['coverage'].get('evaluations', '?')} evaluations, {e.get('wall_s', '?')} s ({e.get('tier')})"
        nk = len({k.get("id") for k in K if k.get("kind") == "finding" and k.get("property") == pid})
        tech = cell(json.load(open(claim))["technique"], 160) if os.path.exists(claim) else "not claimed"
        lines.append(f"| {pid} | {cell(P[pid]['title'], 70)} | {len(full)} / {len(part)} / {len(ref)} | {evs} | {nk} | {tech} |")
    lines.append("\n### 10.2 Defects repaired in /repo (`fix:` commits, generated from known_findings.json)\n")
    lines.append("| commit | property | what failed |")
    lines.append("|---|---|---|")
    for k in K:
        if k.get("kind") == "fixed":
            lines.append(f"| {k['commit']} | {k['property']} | {cell(k['what'], 400)} |")
    lines.append("\n### 10.3 Known findings (genuine defects recorded, not repaired; generated)\n")
    lines.append("| id | property | signature | what fails | why not repaired |")
    lines.append("|---|---|---|---|---|")
    for k in sorted([k for k in K if k.get("kind") == "finding"], key=lambda k: (k["property"], str(k.get("id")))):
        lines.append(f"| {k.get('id', '')} | {k['property']} | `{cell(k['signature'], 90)}` | {cell(k.get('what', ''), 260)} | {cell(k.get('why_not_fixed', ''), 200)} |")
    lines.append("\n### 10.4 Seeded changes written by independent sub-agents and which check reports them (generated)\n")
    lines.append("| seed | property | needs to manifest (from the author's notes) | reported by | caught by the first version of the check |")
    lines.append("|---|---|---|---|---|")
    for d in sorted(glob.glob(os.path.join(V, "seeded", "*"))):
        mf = os.path.join(d, "meta.json")
        if not os.path.exists(mf):
            continue
        m = json.load(open(mf))
        by = ", ".join(f"{c}: {'VIOLATION' if r['violation_reported'] else 'not reported'}" for c, r in m.get("check_result", {}).items())
        first = "yes" if m.get("caught_by_first_version_of_the_check") else "no - strengthened: " + cell(m.get("check_strengthened_by", ""), 160)
        lines.append(f"| {os.path.basename(d)} | {m['property']} | {cell(m.get('what_it_needs_to_manifest', ''), 300)} | {by} | {first} |")
    narrative = open(os.path.join(V, "tools", "design_section10.md")).read().rstrip() + "\n\n"
    text = narrative + "\n".join(lines) + "\n"
    f = os.path.join(V, "DESIGN.md")
    s = open(f).read()
    if BEGIN in s and END in s:
        s = s[:s.index(BEGIN) + len(BEGIN)] + "\n" + text + s[s.index(END):]
    else:
        s = s.rstrip() + "\n\n" + "-" * 99 + "\n\n" + BEGIN + "\n" + text + END + "\n"
    open(f, "w").write(s)


if __name__ == "__main__":
    main()
