#!/usr/bin/env python3
"""Entry point of every check:  python3 tools/check.py Cxx [--tier quick|thorough] [--replay file]
   python3 tools/check.py --setup   builds the Coq development and the harness."""
import argparse
import importlib
import os
import sys

sys.path.insert(0, os.path.dirname(os.path.abspath(__file__)))
import lib  # noqa: E402


def setup():
    """Warm-up only: builds as much of the Coq development and of the harness as builds (make -k). It never decides
    anything: every check builds its own targets again and reports a build failure of its own as a violation, so a
    part of the tree that does not build here does not keep the other properties from being checked."""
    lib.coq_prepare()
    rc, out = lib.sh(["timeout", "7200", "make", "-k", "-j16", "--no-print-directory"], cwd=lib.COQ)
    print(out[-3000:])
    if rc != 0:
        print("setup: some Coq files did not build (see above); the checks that need them will report it")
    try:
        lib.build_harness()
    except lib.HarnessError as e:
        print(e)
        print("setup: the combined harness did not build; each check builds its own subset")
    return 0


def main():
    ap = argparse.ArgumentParser()
    ap.add_argument("prop", nargs="?")
    ap.add_argument("--tier", default=os.environ.get("VERIF_TIER", "quick"))
    ap.add_argument("--replay")
    ap.add_argument("--setup", action="store_true")
    a = ap.parse_args()
    if a.setup:
        sys.exit(setup())
    seed = int(os.environ.get("VERIF_SEED", "1"))
    lib.HARNESS_KEY = a.prop.upper()
    mod = importlib.import_module("props." + a.prop.lower())
    sys.exit(mod.run(a.tier, seed, a.replay))


if __name__ == "__main__":
    main()
