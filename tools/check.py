#!/usr/bin/env python3
"""Entry point of every check:  python3 tools/check.py Cxx [--tier quick|thorough] [--replay file]
   python3 tools/check.py --setup   builds the Coq development and the harness."""
import argparse
import importlib
import os
import sys

sys.path.insert(0, os.path.dirname(os.path.abspath(__file__)))
import lib  # noqa: E402


def setup():
    lib.coq_prepare()
    rc, out = lib.sh(["timeout", "7200", "make", "-j16", "--no-print-directory"], cwd=lib.COQ)
    print(out[-3000:])
    if rc != 0:
        return rc
    try:
        lib.build_harness()
    except lib.HarnessError as e:
        print(e)
        return 1
    return 0


def main():
    ap = argparse.ArgumentParser()
    ap.add_argument("prop", nargs="?")
    ap.add_argument("--tier", default=os.environ.get("VERIF_TIER", "quick"))
    ap.add_argument("--replay")
    ap.add_argument("--setup", action="store_true")
    a = ap.parse_args()
    if a.setup:
        sys.exit(setup())
    seed = int(os.environ.get("VERIF_SEED", "1"))
    lib.HARNESS_KEY = a.prop.upper()
    mod = importlib.import_module("props." + a.prop.lower())
    sys.exit(mod.run(a.tier, seed, a.replay))


if __name__ == "__main__":
    main()
