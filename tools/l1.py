"""L1 histories for the agent-level properties (C01, C02, C03, C05, C14): structured generator that
keeps the control plane's view of what it asked for, a reference reading of valid requests
(request -> rules the agent should now hold), the BESS image of a rule set, and the monitors that
state each property directly on the implementation's observations (independent of the Coq model)."""
import copy
import json
import random

import pfcp as P


def ip(a, b, c, d):
    return (a << 24) | (b << 16) | (c << 8) | d


ACCESS_IP = ip(198, 18, 0, 1)
CORE_IP = ip(198, 19, 0, 1)
N4_IP = ip(127, 0, 0, 9)
M32 = 0xFFFFFFFF
EPOCH = 1641092645  # l1Epoch in the harness


def default_cfg(**kw):
    cfg = {"ueip_alloc": True, "pool": "10.250.0.0/28", "end_marker": True, "hb_timer": False, "access_ip": "198.18.0.1",
           "core_ip": "198.19.0.1", "n4addr": "127.0.0.9", "node_id": "", "dnn": "", "qos": []}
    cfg.update(kw)
    return cfg


def peer_ip(conn):
    return ip(10, 99, 0, conn + 1)


# ------------------------------------------------------------------------------------------------
# specs -> IEs

def pdr_ie(kind, s):
    kids = []
    if "id" in s:
        kids.append(P.u16(P.PDR_ID, s["id"]))
    if "prec" in s:
        kids.append(P.u32(P.PRECEDENCE, s["prec"]))
    if "iface" in s:
        pdi = [P.u8(P.SRC_IFACE, s["iface"])]
        ft = s.get("fteid")
        if ft == "choose":
            pdi.append(P.fteid(choose=True))
        elif ft == "v6":
            pdi.append(P.fteid(teid=s.get("teid6", 7), v6=bytes(range(16))))
        elif ft:
            pdi.append(P.fteid(teid=ft[0], v4=ft[1]))
        ue = s.get("ue")
        if ue == "chv4":
            pdi.append(P.ue_ip(0x10))
        elif ue == "v6":
            pdi.append(P.ue_ip(0x01, v6=bytes(range(16))))
        elif ue is not None:
            pdi.append(P.ue_ip(0x02, ue))
        if s.get("sdf") is not None:
            pdi.append(P.sdf_filter(s["sdf"]))
        if s.get("appid") is not None:
            pdi.append(P.app_id(s["appid"]))
        if s.get("perm"):
            random.Random(s["perm"]).shuffle(pdi)      # the order of the members of a grouped IE is free
        kids.append(P.grouped(P.PDI, *pdi))
    if s.get("ohr"):
        kids.append(P.u8(P.OHR, 0))
    if "far" in s:
        kids.append(P.u32(P.FAR_ID, s["far"]))
    for q in s.get("qers", []):
        kids.append(P.u32(P.QER_ID, q))
    if s.get("perm"):
        # members in another order; the QER IDs keep their relative order (it carries meaning)
        r = random.Random(s["perm"] + 1)
        qs = [k for k in kids if k[:2] == P.u32(P.QER_ID, 0)[:2]]
        rest = [k for k in kids if k[:2] != P.u32(P.QER_ID, 0)[:2]]
        r.shuffle(rest)
        pos = sorted(r.sample(range(len(rest) + len(qs)), len(qs)))
        kids = []
        qi = ri = 0
        for i in range(len(rest) + len(qs)):
            if qi < len(qs) and i == pos[qi]:
                kids.append(qs[qi])
                qi += 1
            else:
                kids.append(rest[ri])
                ri += 1
    return P.grouped(kind, *kids)


def far_ie(kind, s):
    kids = []
    if "id" in s:
        kids.append(P.u32(P.FAR_ID, s["id"]))
    if "action" in s:
        kids.append(P.u8(P.APPLY_ACTION, s["action"]))
    fw = s.get("fwd")
    if fw is not None:
        f = []
        if fw.get("dst_if") is not None:
            f.append(P.u8(P.DST_IFACE, fw["dst_if"]))
        o = fw.get("ohc")
        if o == "v6":
            f.append(P.ohc(9, v6=bytes(range(16))))
        elif o:
            f.append(P.ohc(o[0], o[1]))
        if fw.get("smflags") is not None:
            f.append(P.u8(P.SMREQ_FLAGS, fw["smflags"]))
        if s.get("perm"):
            random.Random(s["perm"]).shuffle(f)
        kids.append(P.grouped(P.FWD_PARAMS if kind == P.CREATE_FAR else P.UPD_FWD_PARAMS, *f))
    if s.get("perm"):
        random.Random(s["perm"] + 1).shuffle(kids)
    return P.grouped(kind, *kids)


def qer_ie(kind, s):
    kids = []
    if "id" in s:
        kids.append(P.u32(P.QER_ID, s["id"]))
    if "qfi" in s:
        kids.append(P.u8(P.QFI, s["qfi"]))
    if "gate" in s:
        kids.append(P.gate(s["gate"][0], s["gate"][1]))
    if "mbr" in s:
        kids.append(P.rate(P.MBR, s["mbr"][0], s["mbr"][1]))
    if "gbr" in s:
        kids.append(P.rate(P.GBR, s["gbr"][0], s["gbr"][1]))
    if s.get("perm"):
        random.Random(s["perm"]).shuffle(kids)
    return P.grouped(kind, *kids)


# ------------------------------------------------------------------------------------------------
# reference reading of valid rule specs (what the agent should hold); UP-chosen values are
# placeholders filled from the response ("choose" TEID, "chv4" address)

REMOTE_NETS = [("any", 0, 0), ("8.8.8.0/24", ip(8, 8, 8, 0), 0xFFFFFF00), ("1.2.3.4", ip(1, 2, 3, 4), M32),
               ("10.0.0.0/8", ip(10, 0, 0, 0), 0xFF000000), ("172.16.5.128/25", ip(172, 16, 5, 128), 0xFFFFFF80)]
PROTOS = [("ip", None), ("tcp", 6), ("udp", 17), ("132", 132)]


def make_sdf(rng):
    """-> (text, remote_ip, remote_mask, proto or None, port range or None) : 'from <remote> [ports] to assigned'"""
    net = rng.choice(REMOTE_NETS)
    pr = rng.choice(PROTOS)
    r = rng.random()
    ports = None
    if r < 0.35:
        p = rng.choice([1, 80, 443, 65535, rng.randrange(1, 65536)])
        ports = (p, p)
        ptxt = f" {p}"
    elif r < 0.55:
        lo = rng.choice([1, 1000, 65000, 65436, 65500, 65534, rng.randrange(1, 65000)])
        hi = min(65535, lo + rng.choice([1, 5, 35, 99]))
        ports = (lo, hi)
        ptxt = f" {lo}-{hi}"
    else:
        ptxt = ""
    text = f"permit out {pr[0]} from {net[0]}{ptxt} to assigned"
    return {"text": text, "rip": net[1], "rmask": net[2], "proto": pr[1], "ports": ports}


APP_FLOWS = [
    # (text, direction keyword, proto, src endpoint, dst endpoint); endpoint = (kind, ip, mask, ports)
    ("permit out ip from any 5000 to any", "out", None, ("any", 0, 0, (5000, 5000)), ("any", 0, 0, None)),
    ("permit in ip from any to any 8080-8084", "in", None, ("any", 0, 0, None), ("any", 0, 0, (8080, 8084))),
    ("permit out udp from 9.9.9.0/24 to assigned 6000-6003", "out", 17, ("net", (9 << 24) | (9 << 16) | (9 << 8), 0xFFFFFF00, None), ("assigned", 0, 0, (6000, 6003))),
    ("permit in tcp from assigned 7000 to 1.1.1.1", "in", 6, ("assigned", 0, 0, (7000, 7000)), ("net", (1 << 24) | (1 << 16) | (1 << 8) | 1, 0xFFFFFFFF, None)),
    ("permit out ip from any to any 1024-1100", "out", None, ("any", 0, 0, None), ("any", 0, 0, (1024, 1100))),
    ("permit in ip from 10.0.0.0/8 65500-65535 to assigned", "in", None, ("net", 10 << 24, 0xFF000000, (65500, 65535)), ("assigned", 0, 0, None)),
    ("permit out 132 from any to 8.8.8.8 53", "out", 132, ("any", 0, 0, None), ("net", (8 << 24) | (8 << 16) | (8 << 8) | 8, 0xFFFFFFFF, (53, 53))),
    ("permit in udp from any 1-1 to assigned", "in", 17, ("any", 0, 0, (1, 1)), ("assigned", 0, 0, None)),
]


def app_table(rng):
    """application id -> list of flow descriptions (one 'out' and one 'in' flow, or only one direction)"""
    outs = [f for f in APP_FLOWS if f[1] == "out"]
    ins = [f for f in APP_FLOWS if f[1] == "in"]
    t = {}
    for k in range(rng.choice([1, 2, 3])):
        flows = []
        if rng.random() < 0.85:
            flows.append(rng.choice(outs))
        if rng.random() < 0.85:
            flows.append(rng.choice(ins))
        rng.shuffle(flows)
        t[f"app{k + 1}"] = flows
    return t


def ref_pdr(s, lseid, establishment=True):
    """expected stored PDR (dict with the harness' field names); '?teid' / '?ue' mark UP-chosen values"""
    iface = 1 if s["iface"] == 0 else 2
    p = {"id": s["id"], "fseid": lseid, "iface": iface, "iface_m": 0xFF, "tdst": 0, "tdst_m": 0, "teid": 0, "teid_m": 0,
         "ue": 0, "prec": s["prec"], "far": s["far"], "qers": list(s.get("qers", [])), "decap": 1 if s.get("ohr") else 0,
         "alloc_ip": False, "choose": False,
         "f_sip": 0, "f_sip_m": 0, "f_dip": 0, "f_dip_m": 0, "f_sp": [0, 0], "f_dp": [0, 0], "f_proto": 0, "f_proto_m": 0}
    ft = s.get("fteid")
    if ft == "choose":
        p["choose"] = True
        if establishment:
            p.update(teid="?teid", teid_m=M32, tdst=ACCESS_IP, tdst_m=M32)
    elif ft and ft != "v6" and ft[0] != 0:
        p.update(teid=ft[0], teid_m=M32, tdst=ft[1], tdst_m=M32)
    ue = s.get("ue")
    if ue == "chv4":
        p.update(ue="?ue", alloc_ip=True)
    elif ue is not None and ue != "v6":
        p["ue"] = ue
    if p["ue"] != 0:
        if iface == 2:
            p.update(f_dip=p["ue"], f_dip_m=M32)
        else:
            p.update(f_sip=p["ue"], f_sip_m=M32)
    ap = s.get("app_sem")
    if ap is not None:
        # verbatim: source to packet source, destination to packet destination; "assigned" = the UE address
        def res(e):
            if e[0] == "assigned":
                return (0, 0) if p["ue"] == 0 else (p["ue"], M32)
            return (e[1], e[2])
        if ap[2] is not None:
            p.update(f_proto=ap[2], f_proto_m=0xFF)
        (sipv, sipm), (dipv, dipm) = res(ap[3]), res(ap[4])
        p.update(f_sip=sipv, f_sip_m=sipm, f_dip=dipv, f_dip_m=dipm,
                 f_sp=list(ap[3][3]) if ap[3][3] else [0, 65535], f_dp=list(ap[4][3]) if ap[4][3] else [0, 65535])
    sd = s.get("sdf_sem")
    if sd is not None:
        if sd["proto"] is not None:
            p.update(f_proto=sd["proto"], f_proto_m=0xFF)
        uev = p["ue"]
        if uev == 0:
            ue_ip, ue_m = 0, 0        # "assigned" with UE address 0.0.0.0 -> wildcard
        else:
            ue_ip, ue_m = uev, M32
        ports = list(sd["ports"]) if sd["ports"] else [0, 65535]
        if iface == 2:   # core: src = remote, dst = UE; a port on the remote side stays on src
            p.update(f_sip=sd["rip"], f_sip_m=sd["rmask"], f_dip=ue_ip, f_dip_m=ue_m, f_sp=ports, f_dp=[0, 65535])
        else:            # access: flipped
            p.update(f_dip=sd["rip"], f_dip_m=sd["rmask"], f_sip=ue_ip, f_sip_m=ue_m, f_dp=ports, f_sp=[0, 65535])
    return p


def ref_far(s, lseid):
    f = {"id": s["id"], "fseid": lseid, "dst_if": 0, "em": False, "action": s["action"], "ttype": 0, "tsrc": 0, "tdst": 0,
         "teid": 0, "tport": 0}
    fw = s.get("fwd")
    if fw is not None:
        o = fw.get("ohc")
        if o and o != "v6":
            f.update(teid=o[0], tdst=o[1], ttype=1, tport=2152)
        if fw.get("dst_if") is not None:
            f["dst_if"] = fw["dst_if"]
            if fw["dst_if"] == 0:
                f["tsrc"] = ACCESS_IP
            elif fw["dst_if"] == 1:
                f["tsrc"] = CORE_IP
        if fw.get("smflags") is not None and fw["smflags"] & 2:
            f["em"] = True
    return f


def ref_qer(s, lseid):
    g = s.get("gate", (0, 0))
    m = s.get("mbr", (0, 0))
    b = s.get("gbr", (0, 0))
    return {"id": s["id"], "fseid": lseid, "qfi": s.get("qfi", 0), "ul": g[0], "dl": g[1], "ul_mbr": m[0], "dl_mbr": m[1],
            "ul_gbr": b[0], "dl_gbr": b[1]}


# ------------------------------------------------------------------------------------------------
# BESS image of stored rules (independent Python reading of the four lookup modules' contents)

def is_wild(r):
    return (r[0] == 0 and r[1] == 65535) or (r[0] == 0 and r[1] == 0)


def is_exact(r):
    return r[0] == r[1] and r[1] != 0


def port_rules(r):
    """single-side expansion used by the BESS plug-in (Exact strategy); None = refused"""
    if is_exact(r):
        return [(r[0], 0xFFFF)]
    if is_wild(r):
        return [(0, 0)]
    if r[1] - r[0] + 1 > 100:
        return None
    return [(p, 0xFFFF) for p in range(r[0], r[1] + 1)]


def cartesian(s, d):
    s_range = not is_exact(s) and not is_wild(s)
    d_range = not is_exact(d) and not is_wild(d)
    if s_range and d_range:
        return None
    a, b = port_rules(s), port_rules(d)
    if a is None or b is None:
        return None
    return [(x[0], x[1], y[0], y[1]) for x in a for y in b]


def calc_burst(kbps, ms):
    return int((float(kbps) * 1000 / 8) * (float(ms) / 1000))


def far_action(f):
    a = f["action"]
    if a & 2:
        if f["dst_if"] == 0:
            return 0
        if f["dst_if"] in (1, 2):
            return 1
        return 2
    if a & 1:
        return 2
    if a & 4:
        return 4
    if a & 8:
        return 4
    return 2


def qos_cfg(cfg, qfi):
    tab = {0: (32 * 1514, 32 * 1514, 32 * 1514, 10)}
    for q in cfg.get("qos", []):
        tab[q["QCI"]] = (q["CBS"], q["PBS"], q["EBS"], q["Dur"])
    if 0 not in {q["QCI"] for q in cfg.get("qos", [])}:
        tab[0] = (32 * 1514, 32 * 1514, 32 * 1514, 10)
    return tab.get(qfi, tab[0])


def image(store, cfg):
    """store dump -> {module: {key tuple: value tuple}}"""
    img = {"pdrLookup": {}, "farLookup": {}, "appQERLookup": {}, "sessionQERLookup": {}}
    for s in store:
        for p in s["pdrs"]:
            rules = cartesian(p["f_sp"], p["f_dp"])
            if rules is None:
                continue
            q0 = p["qers"][0] if p["qers"] else 0
            for (sp, sm, dp, dm) in rules:
                k = (p["iface"], p["tdst"], p["teid"], p["f_sip"], p["f_dip"], sp, dp, p["f_proto"],
                     p["iface_m"], p["tdst_m"], p["teid_m"], p["f_sip_m"], p["f_dip_m"], sm, dm, p["f_proto_m"])
                img["pdrLookup"][k] = (p["decap"], M32 - p["prec"], p["id"], p["fseid"], p["ctr"], q0, p["far"])
        for f in s["fars"]:
            img["farLookup"][(f["id"], f["fseid"])] = (f["ttype"], far_action(f), f["ttype"], f["tsrc"], f["tdst"], f["teid"], f["tport"])
        for q in s["qers"]:
            cbs_c, pbs_c, ebs_c, dur = qos_cfg(cfg, q["qfi"])
            cir = pir = 0
            for iface, st, mbr, gbr in ((1, q["ul"], q["ul_mbr"], q["ul_gbr"]), (2, q["dl"], q["dl_mbr"], q["dl_gbr"])):
                cbs = max(calc_burst(gbr, dur), cbs_c)
                ebs = max(calc_burst(mbr, dur), ebs_c)
                pbs = max(calc_burst(mbr, dur), pbs_c)
                if st != 0:
                    gate = 5
                elif mbr != 0 or gbr != 0:
                    cir = max(gbr * 1000 // 8, 1)
                    pir = max(mbr * 1000 // 8, cir)
                    gate = 0
                else:
                    gate = 6
                if q["level"] == 0:
                    img["appQERLookup"][(iface, q["id"], q["fseid"])] = (gate, cir, pir, cbs, pbs, ebs, q["qfi"])
                else:
                    img["sessionQERLookup"][(iface, q["fseid"])] = (gate, cir, pir, cbs, pbs, ebs)
    return img


def tables_of(obs):
    return {m: {tuple(k): tuple(v) for k, v in rows} for m, rows in obs["tables"].items() if m != "sliceMeter"}


def diff_tables(actual, expect):
    """-> list of (module, kind, key) differences"""
    out = []
    for m in expect:
        a = actual.get(m, {})
        e = expect[m]
        for k in e:
            if k not in a:
                out.append((m, "missing", k))
            elif a[k] != e[k]:
                out.append((m, "value", k))
        for k in a:
            if k not in e:
                out.append((m, "extra", k))
    return out


# ------------------------------------------------------------------------------------------------
# history generator: keeps the control plane's view

class Gen:
    def __init__(self, rng, cfg=None, nconn=2):
        self.rng = rng
        self.cfg = cfg or default_cfg()
        self.events = []       # harness events
        self.intents = []      # what each event is and what the property expects of it
        self.assoc = {}        # conn -> True when associated
        self.released = set()
        self.sessions = {}     # lseid -> {"conn","cp_seid","pdrs":{id:spec},"fars":{},"qers":{}}
        self.seq = rng.choice([0, 1, 100, 0xFFFFFE])
        self.next_lseid = {}
        self.nconn = nconn
        self.next_teid = 0x100
        self.dead = set()
        self.pfds = {}         # conn -> app id -> flows (APP_FLOWS tuples)

    def _seq(self):
        self.seq = (self.seq + 1) & 0xFFFFFF
        if self.rng.random() < 0.05:
            self.seq = self.rng.choice([0, 1, 0xFFFFFF, self.rng.randrange(1 << 24)])
        return self.seq

    def emit(self, conn, raw, intent, draws=None):
        self.events.append({"k": "msg", "conn": conn, "hex": raw.hex(), "draws": draws or []})
        intent.update(conn=conn)
        self.intents.append(intent)

    # -- node level
    def heartbeat(self, conn):
        seq = self._seq()
        self.emit(conn, P.message(P.HB_REQ, seq, [P.recovery_ts(1000)]), {"op": "hb", "seq": seq, "req": P.HB_REQ, "wf": True})

    def setup(self, conn):
        seq = self._seq()
        down = getattr(self, "dp_is_down", False)
        self.emit(conn, P.message(P.AS_REQ, seq, [P.node_id_v4(peer_ip(conn)), P.recovery_ts(2000)]),
                  {"op": "setup", "seq": seq, "req": P.AS_REQ, "wf": True, "expect": "reject" if down else "accept"})
        if conn not in self.dead and not down:
            self.assoc[conn] = True

    def refuse_writes(self, n=1):
        """the datapath answers the next n writes with 'request rejected' (only in the fixed scenarios)"""
        self.events.append({"k": "dp_fail", "conn": n})
        self.intents.append({"op": "datapath", "up": True, "conn": 0, "refuse": n})

    def datapath(self, up):
        """the BESS daemon goes away / comes back (only in the fixed scenarios; not part of the Coq-replayed histories)"""
        self.dp_is_down = not up
        self.events.append({"k": "dp_up" if up else "dp_down", "conn": 0})
        self.intents.append({"op": "datapath", "up": up, "conn": 0})

    def release(self, conn):
        seq = self._seq()
        self.emit(conn, P.message(P.AR_REQ, seq, [P.node_id_v4(peer_ip(conn))]),
                  {"op": "release", "seq": seq, "req": P.AR_REQ, "wf": True,
                   "ends": [l for l, s in self.sessions.items() if s["conn"] == conn]})
        self._drop_conn(conn)

    def teardown(self, conn):
        self.events.append({"k": "teardown", "conn": conn})
        self.intents.append({"op": "teardown", "conn": conn, "ends": [l for l, s in self.sessions.items() if s["conn"] == conn]})
        self._drop_conn(conn)

    def _drop_conn(self, conn):
        for l in [l for l, s in self.sessions.items() if s["conn"] == conn]:
            del self.sessions[l]
        self.assoc.pop(conn, None)
        self.pfds.pop(conn, None)
        self.next_lseid.pop(conn, None)     # a fresh PFCPConn (and random source) serves the peer from now on

    def restart(self):
        self.events.append({"k": "restart"})
        self.intents.append({"op": "restart", "ends": list(self.sessions)})
        self.sessions.clear()
        self.assoc.clear()
        self.dead.clear()
        self.pfds.clear()
        self.next_lseid.clear()

    def pfd(self, conn, table, bad=False):
        """table: app id -> list of flow texts or APP_FLOWS tuples"""
        seq = self._seq()
        ies = []
        if not bad:
            self.pfds[conn] = {k: [f for f in v if isinstance(f, tuple)] for k, v in table.items()}
        for appid, flows in table.items():
            kids = [P.app_id(appid)]
            ctx = [P.pfd_contents(flow=(f[0] if isinstance(f, tuple) else f)) for f in flows]
            if bad and appid == list(table)[-1]:
                ctx.append(P.pfd_contents(url="http://x"))      # no flow description -> rejected
            kids.append(P.grouped(P.PFD_CONTEXT, *ctx))
            ies.append(P.grouped(P.APP_IDS_PFDS, *kids))
        self.emit(conn, P.message(P.PFD_REQ, seq, ies), {"op": "pfd", "seq": seq, "req": P.PFD_REQ, "wf": True,
                                                         "expect": "reject" if bad else "accept"})

    # -- rule specs
    def _teid(self):
        self.next_teid += 1
        return self.next_teid

    def new_pdr_pair(self, n, with_sdf=True, choose=None, chv4=None, qers=(), fixed_ue=None):
        r = self.rng
        choose = r.random() < 0.6 if choose is None else choose
        chv4 = (self.cfg["ueip_alloc"] and r.random() < 0.6) if chv4 is None else chv4
        ue = "chv4" if chv4 else (fixed_ue if fixed_ue is not None else ip(10, 60, r.randrange(250), r.randrange(1, 250)))
        prec = r.choice([0, 1, 100, 255, 65535, 1 << 20, r.randrange(1 << 16)])
        ul = {"id": 2 * n + 1, "prec": prec, "iface": 0, "fteid": "choose" if choose else (self._teid(), ACCESS_IP),
              "ue": (None if chv4 else ue), "ohr": True, "far": 2 * n + 1, "qers": list(qers)}
        dl = {"id": 2 * n + 2, "prec": prec, "iface": 1, "ue": ue, "far": 2 * n + 2, "qers": list(qers)}
        if n >= 1 or (with_sdf and r.random() < 0.5):
            sd = make_sdf(r)
            if n >= 1:
                # PDRs of one session share the UE address: keep their match keys distinct (the envelope
                # of C03) by giving every further pair its own remote port
                net = r.choice(REMOTE_NETS)
                pr = r.choice(PROTOS)
                port = 2000 + n
                sd = {"text": f"permit out {pr[0]} from {net[0]} {port} to assigned", "rip": net[1], "rmask": net[2],
                      "proto": pr[1], "ports": (port, port)}
            ul["sdf"], ul["sdf_sem"] = sd["text"], sd
            dl["sdf"], dl["sdf_sem"] = sd["text"], sd
        if r.random() < 0.3:
            ul["perm"], dl["perm"] = r.randrange(1, 1 << 30), r.randrange(1, 1 << 30)
        return ul, dl

    def new_far_pair(self, n):
        r = self.rng
        ulf = {"id": 2 * n + 1, "action": 2, "fwd": {"dst_if": 1}}
        act = r.choice([2, 2, 2, 1, 4, 12])
        dlf = {"id": 2 * n + 2, "action": act}
        if act & 2:
            dlf["fwd"] = {"dst_if": 0, "ohc": (self._teid(), ip(192, 168, r.randrange(4), r.randrange(1, 250)))}
        if r.random() < 0.3:
            ulf["perm"], dlf["perm"] = r.randrange(1, 1 << 30), r.randrange(1, 1 << 30)
        return ulf, dlf

    def new_qer(self, qid):
        r = self.rng
        gbr = r.choice([(0, 0), (0, 0), (100, 200)])
        mbr = r.choice([(0, 0), (1000, 2000), (1, 1), (10 ** 6, 10 ** 7), ((1 << 40) - 1, (1 << 40) - 1)])
        if gbr[0] > mbr[0] or gbr[1] > mbr[1]:
            gbr = (0, 0)
        return {"id": qid, "qfi": r.choice([0, 5, 9, 63]), "gate": (r.choice([0, 0, 0, 1]), r.choice([0, 0, 0, 1])), "mbr": mbr, "gbr": gbr,
                "perm": r.randrange(1, 1 << 30) if r.random() < 0.3 else 0}

    # -- session level
    def establish(self, conn, npairs=None, nqers=None, node_id=None, draws=None, cp_v6=False, **kw):
        r = self.rng
        seq = self._seq()
        npairs = r.choice([1, 1, 2, 3]) if npairs is None else npairs
        nqers = r.choice([0, 1, 1, 2]) if nqers is None else nqers
        qids = list(range(1, nqers + 1))
        pdrs, fars = [], []
        if "chv4" not in kw:
            # one decision per session: a session whose allocating PDR is removed while other PDRs stay keeps
            # its address for ever (known finding F37), so random histories allocate for all pairs or for none
            kw["chv4"] = self.cfg["ueip_alloc"] and r.random() < 0.6
        if not kw["chv4"]:
            kw.setdefault("fixed_ue", ip(10, 60, r.randrange(250), r.randrange(1, 250)))
        for n in range(npairs):
            pdrs += self.new_pdr_pair(n, qers=qids, **kw)
            fars += self.new_far_pair(n)
        apps = self.pfds.get(conn) or {}
        if apps and npairs >= 1 and r.random() < 0.6 and "sdf" not in pdrs[0]:
            # the first pair is classified by a provisioned application id: uplink takes the first "out" flow, downlink the first "in" flow
            appid = r.choice(sorted(apps))
            # a provisioned flow is taken verbatim: a downlink flow that does not name the UE ("to any") gives every
            # session that uses it the same match key. Keys of live PDRs are distinct inside C03's envelope, so such a
            # flow is used by one live session at a time.
            dl_flow = next((f for f in apps[appid] if f[1] == "in"), None)
            if dl_flow is not None and dl_flow[4][0] != "assigned":
                for s_ in self.sessions.values():
                    if any(p2.get("app_sem") and p2["iface"] == 1 and p2["app_sem"][0] == dl_flow[0] for p2 in s_["pdrs"].values()):
                        appid = None
            for p_ in (pdrs[:2] if appid is not None else []):
                want = "out" if p_["iface"] == 0 else "in"
                p_["appid"] = appid
                p_["app_sem"] = next((f for f in apps[appid] if f[1] == want), None)
        qers = [self.new_qer(q) for q in qids]
        k = self.next_lseid.get(conn, 0) + 1
        self.next_lseid[conn] = k
        lseid = (conn + 1) * 1000000 + k if draws is None else draws[0]
        cp_seid = r.choice([0, 1, (1 << 64) - 1, r.randrange(1 << 64), r.randrange(1 << 20)])
        nid = P.node_id_v4(peer_ip(conn)) if node_id is None else node_id
        ies = [nid, P.fseid(cp_seid, None if cp_v6 else peer_ip(conn), bytes(range(16)) if cp_v6 else None)]
        ies += [pdr_ie(P.CREATE_PDR, p) for p in pdrs] + [far_ie(P.CREATE_FAR, f) for f in fars] + [qer_ie(P.CREATE_QER, q) for q in qers]
        assoc_ok = self.assoc.get(conn, False) and node_id is None
        expect = "accept" if assoc_ok else "reject-noassoc"
        intent = {"op": "est", "seq": seq, "req": P.SE_REQ, "wf": True, "expect": expect, "lseid": lseid, "cp_seid": cp_seid,
                  "pdrs": pdrs, "fars": fars, "qers": qers}
        self.emit(conn, P.message(P.SE_REQ, seq, ies, seid=0), intent, draws=draws)
        if expect == "accept":
            self.sessions[lseid] = {"conn": conn, "cp_seid": cp_seid, "pdrs": {p["id"]: p for p in pdrs},
                                    "fars": {f["id"]: f for f in fars}, "qers": {q["id"]: q for q in qers}}
        else:
            # the draw is not consumed when the association check fails
            self.next_lseid[conn] = k - 1
        return lseid

    def establish_bad(self, conn):
        """an establishment that is rejected AFTER the session was allocated and resources were taken: a valid
        first PDR pair (CHOOSE F-TEID + UPF-allocated UE address) followed by a rule the agent must refuse.
        Everything acquired so far has to be returned (C05) and nothing may be written (C03)."""
        r = self.rng
        seq = self._seq()
        pdrs = list(self.new_pdr_pair(0, choose=True, chv4=self.cfg["ueip_alloc"] and r.random() < 0.5, with_sdf=False))
        fars = list(self.new_far_pair(0))
        qers = [self.new_qer(1)]
        kind = r.choice(["pdr_no_far", "pdr_unknown_app", "pdr_cp_iface", "far_no_action", "far_fwd_missing", "qer_no_id"])
        bad_p, bad_f, bad_q = [], [], []
        if kind == "pdr_no_far":
            bad_p = [{"id": 9, "prec": 5, "iface": 1, "ue": "chv4" if self.cfg["ueip_alloc"] else ip(10, 9, 9, 9)}]
        elif kind == "pdr_unknown_app":
            bad_p = [{"id": 9, "prec": 5, "iface": 1, "ue": "chv4" if self.cfg["ueip_alloc"] else ip(10, 9, 9, 9), "appid": "no-such-app", "far": 2}]
        elif kind == "pdr_cp_iface":
            bad_p = [{"id": 9, "prec": 5, "iface": 3, "ue": ip(10, 9, 9, 9), "far": 2}]
        elif kind == "pdr_bad_ueip":
            bad_p = [{"id": 9, "prec": 5, "iface": 1, "ue": "v6", "far": 2}]
        elif kind == "far_no_action":
            bad_f = [{"id": 9}]
        elif kind == "far_fwd_missing":
            bad_f = [{"id": 9, "action": 2}]
        elif kind == "qer_no_id":
            bad_q = [{"qfi": 9, "gate": (0, 0)}]
        cp_seid = r.randrange(1 << 32)
        ies = [P.node_id_v4(peer_ip(conn)), P.fseid(cp_seid, peer_ip(conn))]
        ies += [pdr_ie(P.CREATE_PDR, p) for p in pdrs + bad_p] + [far_ie(P.CREATE_FAR, f) for f in fars + bad_f] + [qer_ie(P.CREATE_QER, q) for q in qers + bad_q]
        assoc_ok = self.assoc.get(conn, False)
        k = self.next_lseid.get(conn, 0) + 1
        if assoc_ok:
            self.next_lseid[conn] = k            # the draw is consumed, the session is rolled back
        self.emit(conn, P.message(P.SE_REQ, seq, ies, seid=0),
                  {"op": "est", "seq": seq, "req": P.SE_REQ, "wf": True, "expect": "reject" if assoc_ok else "reject-noassoc",
                   "kind": "bad:" + kind, "lseid": (conn + 1) * 1000000 + k, "cp_seid": cp_seid, "pdrs": pdrs, "fars": fars, "qers": qers})

    def delete(self, lseid, conn=None, refused=False):
        """refused: the datapath was told to refuse the write (refuse_writes): the deletion is rejected, the session stays"""
        seq = self._seq()
        known = lseid in self.sessions and (conn is None or self.sessions[lseid]["conn"] == conn)
        c = self.sessions[lseid]["conn"] if conn is None else conn
        ok = known and not refused
        self.emit(c, P.message(P.SD_REQ, seq, [], seid=lseid),
                  {"op": "del", "seq": seq, "req": P.SD_REQ, "wf": True, "lseid": lseid,
                   "expect": "accept" if ok else ("reject" if known else "reject-unknown"),
                   "cp_seid": self.sessions[lseid]["cp_seid"] if known else None, "ends": [lseid] if ok else []})
        if ok:
            del self.sessions[lseid]

    def report_response(self, lseid, conn, cause=P.CAUSE_CTX_NOT_FOUND):
        seq = self._seq()
        known = lseid in self.sessions and self.sessions[lseid]["conn"] == conn
        ends = [lseid] if (known and cause == P.CAUSE_CTX_NOT_FOUND) else []
        self.emit(conn, P.message(P.SR_RSP, seq, [P.u8(P.CAUSE, cause)], seid=lseid),
                  {"op": "srrsp", "seq": seq, "req": P.SR_RSP, "wf": True, "lseid": lseid, "ends": ends})
        for l in ends:
            del self.sessions[l]

    def modify(self, lseid, conn=None, kind=None):
        """one modification of a random kind; returns the intent"""
        r = self.rng
        seq = self._seq()
        known = lseid in self.sessions and (conn is None or self.sessions[lseid]["conn"] == conn)
        c = self.sessions[lseid]["conn"] if conn is None else (conn if conn is not None else 0)
        if not known:
            ies = [far_ie(P.UPDATE_FAR, {"id": 2, "action": 2, "fwd": {"dst_if": 0, "ohc": (5, ip(192, 168, 9, 9))}})]
            self.emit(c, P.message(P.SM_REQ, seq, ies, seid=lseid),
                      {"op": "mod", "seq": seq, "req": P.SM_REQ, "wf": True, "lseid": lseid, "expect": "reject-unknown", "kind": "unknown"})
            return
        s = self.sessions[lseid]
        kinds = ["upd_far", "upd_far", "upd_far_em", "upd_far_em", "upd_qer", "add_pair", "rm_pair", "upd_pdr_prec", "upd_far_unknown",
                 "cp_fseid", "upd_far_buffer", "upd_far_mixed", "upd_far_mixed"]
        kind = kind or r.choice(kinds)
        ies, intent = [], {"op": "mod", "seq": seq, "req": P.SM_REQ, "wf": True, "lseid": lseid, "expect": "accept", "kind": kind,
                           "markers": [], "cp_seid_before": s["cp_seid"]}
        dl_fars = [f for f in s["fars"].values() if f["id"] % 2 == 0]
        if kind in ("upd_far", "upd_far_em", "upd_far_buffer", "upd_far_mixed") and dl_fars:
            n = r.choice([1, 1, 2]) if kind != "upd_far_mixed" else r.choice([2, 3])
            for f in r.sample(dl_fars, min(n, len(dl_fars))):
                old = copy.deepcopy(f)
                # mixed: several Update FARs of different shapes in one message (with / without Outer Header Creation)
                if kind == "upd_far_buffer" or (kind == "upd_far_mixed" and r.random() < 0.5):
                    nf = {"id": f["id"], "action": 12, "fwd": {}}
                else:
                    nf = {"id": f["id"], "action": 2, "fwd": {"dst_if": 0, "ohc": (self._teid(), ip(192, 168, r.randrange(4, 8), r.randrange(1, 250)))}}
                    if kind == "upd_far_em":
                        nf["fwd"]["smflags"] = r.choice([2, 2, 3, 1])
                if r.random() < 0.3:
                    nf["perm"] = r.randrange(1, 1 << 30)
                ies.append(far_ie(P.UPDATE_FAR, nf))
                if nf.get("fwd", {}).get("smflags", 0) & 2:
                    oo = ref_far(old, lseid)
                    intent["markers"].append({"src": oo["tsrc"], "dst": oo["tdst"], "teid": oo["teid"]})
                s["fars"][f["id"]] = nf
        elif kind == "upd_far_unknown":
            ies.append(far_ie(P.UPDATE_FAR, {"id": 9999, "action": 2, "fwd": {"dst_if": 0, "ohc": (self._teid(), ip(192, 168, 9, 1)), "smflags": 2}}))
        elif kind == "upd_qer" and len(s["qers"]) == 1:     # with two or more QERs an update re-labels (known finding F13b)
            q = r.choice(list(s["qers"].values()))
            nq = self.new_qer(q["id"])
            nq["qfi"] = q["qfi"]
            ies.append(qer_ie(P.UPDATE_QER, nq))
            s["qers"][q["id"]] = nq
        elif kind == "add_pair" and len(s["pdrs"]) <= 6:
            n = max(s["pdrs"]) // 2 + (1 if max(s["pdrs"]) % 2 == 0 else 1)
            n = (max(s["pdrs"]) + 1) // 2
            ue = next((p["ue"] for p in s["pdrs"].values() if p["iface"] == 1 and p["ue"] != "chv4"), ip(10, 61, r.randrange(250), r.randrange(1, 250)))
            ul, dl = self.new_pdr_pair(n, choose=False, chv4=False, qers=sorted(s["qers"]), fixed_ue=ue)
            ul["prec"] = dl["prec"] = r.choice([7, 300, 65534])
            ulf, dlf = self.new_far_pair(n)
            ies += [pdr_ie(P.CREATE_PDR, ul), pdr_ie(P.CREATE_PDR, dl), far_ie(P.CREATE_FAR, ulf), far_ie(P.CREATE_FAR, dlf)]
            s["pdrs"][ul["id"]], s["pdrs"][dl["id"]] = ul, dl
            s["fars"][ulf["id"]], s["fars"][dlf["id"]] = ulf, dlf
        elif kind == "rm_pair" and len(s["pdrs"]) >= 4:
            # any pair, not only the last one: the rules behind the removed ones move up in the stored arrays
            pairs = sorted({(i - 1) // 2 for i in s["pdrs"]})
            # the pair whose PDR made the UPF allocate the UE address stays while pairs without that flag stay (removing it
            # is the known finding F37, reproduced by its own corpus scenario)
            alloc = [n_ for n_ in pairs if any(s["pdrs"].get(i, {}).get("ue") == "chv4" for i in (2 * n_ + 1, 2 * n_ + 2))]
            cand = [n_ for n_ in pairs if n_ not in alloc or len(alloc) >= 2] or [pairs[-1]]
            n = r.choice(cand) if not getattr(self, "rm_last_only", False) else pairs[-1]
            ids = [i for i in (2 * n + 1, 2 * n + 2) if i in s["pdrs"]]
            ies += [P.grouped(P.REMOVE_PDR, P.u16(P.PDR_ID, i)) for i in ids] + [P.grouped(P.REMOVE_FAR, P.u32(P.FAR_ID, i)) for i in ids]
            for i in ids:
                s["pdrs"].pop(i, None)
                s["fars"].pop(i, None)
        elif kind == "upd_pdr_prec":
            p = r.choice(list(s["pdrs"].values()))
            if p.get("fteid") != "choose" and p.get("ue") != "chv4":
                np_ = dict(p)
                np_["prec"] = r.choice([3, 77, 65000])
                ies.append(pdr_ie(P.UPDATE_PDR, np_))
                s["pdrs"][p["id"]] = np_
        elif kind == "cp_fseid":
            new = r.randrange(1 << 64)
            ies.append(P.fseid(new, peer_ip(c)))
            s["cp_seid"] = new
        intent["cp_seid"] = s["cp_seid"]
        self.emit(c, P.message(P.SM_REQ, seq, ies, seid=lseid), intent)

    def view(self):
        return copy.deepcopy(self.sessions)


def random_history(rng, cfg=None, length=14, restarts=True):
    g = Gen(rng, cfg)
    views = []

    def snap():
        while len(views) < len(g.events):
            views.append(g.view())

    for c in range(g.nconn):
        if rng.random() < 0.85:
            g.setup(c)
            if rng.random() < 0.5:
                g.pfd(c, app_table(rng))
    snap()
    for _ in range(length):
        r = rng.random()
        live = list(g.sessions)
        conns_ok = [c for c in range(g.nconn) if g.assoc.get(c) and c not in g.dead]
        if r < 0.22 and conns_ok and len(live) < 4:
            g.establish(rng.choice(conns_ok))
        elif r < 0.25:
            c = rng.randrange(g.nconn)
            if c not in g.dead:
                g.establish(c, node_id=P.node_id_v4(ip(9, 9, 9, 9)) if rng.random() < 0.5 else (None if not g.assoc.get(c) else P.node_id_fqdn("")))
        elif r < 0.30 and conns_ok:
            g.establish_bad(rng.choice(conns_ok))
        elif r < 0.60 and live:
            g.modify(rng.choice(live))
        elif r < 0.70 and live:
            g.delete(rng.choice(live))
        elif r < 0.73:
            c = rng.randrange(g.nconn)
            if c not in g.dead:
                bogus = rng.choice([1, 424242, (1 << 64) - 1])
                if bogus not in g.sessions:
                    (g.modify if rng.random() < 0.5 else g.delete)(bogus, conn=c)
        elif r < 0.80:
            c = rng.randrange(g.nconn)
            if c not in g.dead:
                g.heartbeat(c)
        elif r < 0.84 and live:
            l = rng.choice(live)
            g.report_response(l, g.sessions[l]["conn"], rng.choice([P.CAUSE_CTX_NOT_FOUND, P.CAUSE_CTX_NOT_FOUND, P.CAUSE_ACCEPTED, P.CAUSE_REJECTED]))
        elif r < 0.88 and conns_ok:
            g.release(rng.choice(conns_ok))
        elif r < 0.91 and conns_ok:
            g.teardown(rng.choice(conns_ok))
        elif r < 0.94 and restarts:
            g.restart()
            for c in range(g.nconn):
                g.setup(c)
        elif conns_ok and len(live) < 4:
            g.establish(rng.choice(conns_ok))
        snap()
    snap()
    return {"cfg": g.cfg, "events": g.events}, g.intents, views


# ------------------------------------------------------------------------------------------------
# monitors.  Each returns a list of (signature, message, event index)

def replies_of(o):
    return [(int(c), m) for c, l in o.get("replies", {}).items() for m in l]


def mon_c01(case, intents, obs):
    out = []
    for i, o in enumerate(obs):
        if "panic" in o:
            kind = "".join(ch for ch in o["panic"].split("[")[0] if not ch.isdigit()).strip()
            out.append((f"panic:{o.get('func', '?')}:{kind}", f"event {i} panicked: {o['panic']} @ {o.get('frame')} in {o.get('func')}", i))
        if o.get("blocked"):
            out.append(("blocked", f"event {i} did not return (receive loop wedged)", i))
        if o.get("runaway"):
            out.append(("memory-runaway", f"event {i} left a goroutine allocating without bound (heap {o['runaway'] >> 20} MiB): the agent runs out of memory", i))
    if obs and obs[0].get("skipped"):
        return []
    if len(obs) < len(case["events"]) and not out:
        out.append(("history-cut", "harness stopped early without a recorded reason", len(obs)))
    return out


def mon_c02(case, intents, obs):
    out = []
    for i, (it, o) in enumerate(zip(intents, obs)):
        if "panic" in o or o.get("blocked"):
            break
        rs = replies_of(o)
        if it.get("op") in ("teardown", "restart", "report", "datapath"):
            if it.get("op") == "datapath" and "refuse" not in it and it["up"] != (o.get("dp_state") == "READY"):
                out.append(("harness:datapath-state", f"event {i}: the gRPC channel is {o.get('dp_state')} after the datapath went {'up' if it['up'] else 'down'}", i))
            continue
        req = it.get("req")
        if req in (P.SR_RSP, P.HB_RSP, P.AS_RSP, P.SE_RSP, P.SM_RSP, P.SD_RSP, P.PFD_RSP, P.AR_RSP):
            if rs:
                out.append(("response-answered", f"event {i}: a response-type message ({req}) was answered with {rs}", i))
            continue
        if len(rs) > 1:
            out.append(("two-responses", f"event {i}: {len(rs)} responses to one request", i))
            continue
        if not it.get("wf"):
            # malformed mandatory elements: at most one reply, and if any then of the matching type and sequence
            for c, m in rs:
                if m.get("type") != P.RESPONSE_OF.get(req) or m.get("seq") != it["seq"] or c != it["conn"]:
                    out.append(("wrong-response", f"event {i}: reply {m} does not match request type {req} seq {it['seq']}", i))
            continue
        if it["conn"] in it.get("dead_conns", []):
            continue
        if len(rs) != 1:
            out.append(("no-response", f"event {i}: well-formed request type {req} seq {it['seq']} got {len(rs)} responses", i))
            continue
        c, m = rs[0]
        if c != it["conn"]:
            out.append(("wrong-peer", f"event {i}: response sent to connection {c}", i))
        if m.get("type") != P.RESPONSE_OF[req]:
            out.append(("wrong-type", f"event {i}: response type {m.get('type')} for request {req}", i))
        if m.get("seq") != it["seq"]:
            out.append(("wrong-seq", f"event {i}: response sequence {m.get('seq')} != {it['seq']}", i))
        exp = it.get("expect")
        cause = m.get("cause")
        if req in (P.SE_REQ, P.SM_REQ, P.SD_REQ):
            if exp == "accept":
                if cause != P.CAUSE_ACCEPTED:
                    out.append(("valid-request-rejected", f"event {i}: well-formed {it['op']} on a known session/association rejected with cause {cause}", i))
                    continue
                want = it.get("cp_seid")
                if m.get("seid") != want:
                    out.append(("accepted-seid", f"event {i}: accepted {it['op']} carries SEID {m.get('seid')}, control plane's SEID is {want}", i))
            else:
                if cause == P.CAUSE_ACCEPTED or cause is None:
                    out.append(("invalid-request-accepted", f"event {i}: {it['op']} expected {exp}, answered cause {cause}", i))
                if exp == "reject-unknown" and m.get("seid") != 0:
                    out.append(("rejected-seid", f"event {i}: rejected {it['op']} for an unknown session carries SEID {m.get('seid')}", i))
            if req == P.SE_REQ and exp == "accept" and cause == P.CAUSE_ACCEPTED:
                if m.get("nodeid") != (case["cfg"].get("node_id") or case["cfg"]["n4addr"]):
                    out.append(("est-nodeid", f"event {i}: Node ID {m.get('nodeid')}, configured {case['cfg'].get('node_id')!r}, N4 address {case['cfg']['n4addr']}", i))
                uf = m.get("upfseid")
                if not uf or uf == "err" or uf[0] == 0 or uf[1] != N4_IP:
                    out.append(("est-upfseid", f"event {i}: UP F-SEID {uf}", i))
                elif uf[0] != it["lseid"]:
                    out.append(("est-upfseid-draw", f"event {i}: UP F-SEID {uf[0]} is not the draw {it['lseid']}", i))
                want = []
                for p in it["pdrs"]:
                    if p.get("fteid") == "choose":
                        want.append((p["id"], "teid"))
                    if p.get("ue") == "chv4" and p["iface"] == 1:
                        want.append((p["id"], "ueip"))
                got = [(c_.get("pdr"), "teid" if "teid" in c_ else ("ueip" if "ueip" in c_ else "?")) for c_ in m.get("created", [])]
                if sorted(got) != sorted(want):
                    out.append(("est-created-pdr", f"event {i}: Created PDR elements {got}, expected {want}", i))
                for c_ in m.get("created", []):
                    if "teid" in c_ and (c_["teid"] == 0 or c_.get("ip") != ACCESS_IP):
                        out.append(("est-created-teid", f"event {i}: created F-TEID {c_}", i))
        elif req in (P.AS_REQ, P.AR_REQ, P.PFD_REQ):
            if exp == "reject":
                if cause == P.CAUSE_ACCEPTED:
                    out.append(("invalid-request-accepted", f"event {i}: {it['op']} expected rejection", i))
            elif cause != P.CAUSE_ACCEPTED:
                out.append(("valid-request-rejected", f"event {i}: {it['op']} rejected with cause {cause}", i))
    return out


def fill_placeholders(exp, act):
    """UP-chosen values: take them from the actual rule but require them to be sane"""
    e = dict(exp)
    bad = []
    if e.get("teid") == "?teid":
        e["teid"] = act["teid"]
        if act["teid"] == 0:
            bad.append("chosen TEID is 0")
    if e.get("ue") == "?ue":
        e["ue"] = act["ue"]
        if act["ue"] == 0:
            bad.append("allocated UE address is 0")
        for k in ("f_sip", "f_dip"):
            if e.get(k) == "?ue":
                e[k] = act["ue"]
    return e, bad


def compare_store(view, store, establishment_lseids=()):
    """control plane's view (specs) vs. the agent's stored rules. -> list of messages"""
    msgs = []
    by = {s["lseid"]: s for s in store}
    if set(by) != set(view):
        msgs.append(f"live sessions {sorted(by)} != expected {sorted(view)}")
        return msgs
    for l, v in view.items():
        s = by[l]
        if s["rseid"] != v["cp_seid"]:
            msgs.append(f"session {l}: remote SEID {s['rseid']} != {v['cp_seid']}")
        ap = {p["id"]: p for p in s["pdrs"]}
        if sorted(ap) != sorted(v["pdrs"]) or len(ap) != len(s["pdrs"]):
            msgs.append(f"session {l}: PDR ids {[p['id'] for p in s['pdrs']]} != {sorted(v['pdrs'])}")
        else:
            for pid, spec in v["pdrs"].items():
                e = ref_pdr(spec, l)
                # "assigned"/UE pre-fill placeholders
                for k in ("f_sip", "f_dip"):
                    if e[k] == "?ue":
                        pass
                a = ap[pid]
                if e["ue"] == "?ue":
                    for k in ("f_sip", "f_dip"):
                        if e[k] == "?ue":
                            e[k] = a["ue"]
                e, bad = fill_placeholders(e, a)
                msgs += [f"session {l} PDR {pid}: {b}" for b in bad]
                for k, ev in e.items():
                    if k == "qers":
                        if sorted(a["qers"]) != sorted(ev):
                            msgs.append(f"session {l} PDR {pid}: QER ids {a['qers']} != {ev}")
                    elif k in ("f_sp", "f_dp"):
                        if list(a[k]) != list(ev) and not (is_wild(a[k]) and is_wild(ev)):
                            msgs.append(f"session {l} PDR {pid}: {k} {a[k]} != {ev}")
                    elif a.get(k) != ev:
                        msgs.append(f"session {l} PDR {pid}: {k} = {a.get(k)} != {ev}")
        af = {f["id"]: f for f in s["fars"]}
        if sorted(af) != sorted(v["fars"]) or len(af) != len(s["fars"]):
            msgs.append(f"session {l}: FAR ids {[f['id'] for f in s['fars']]} != {sorted(v['fars'])}")
        else:
            for fid, spec in v["fars"].items():
                e = ref_far(spec, l)
                for k, ev in e.items():
                    if af[fid].get(k) != ev:
                        msgs.append(f"session {l} FAR {fid}: {k} = {af[fid].get(k)} != {ev}")
        aq = {q["id"]: q for q in s["qers"]}
        if sorted(aq) != sorted(v["qers"]) or len(aq) != len(s["qers"]):
            msgs.append(f"session {l}: QER ids {[q['id'] for q in s['qers']]} != {sorted(v['qers'])}")
        else:
            for qid, spec in v["qers"].items():
                e = ref_qer(spec, l)
                for k, ev in e.items():
                    if aq[qid].get(k) != ev:
                        msgs.append(f"session {l} QER {qid}: {k} = {aq[qid].get(k)} != {ev}")
    return msgs


def mon_c03(case, intents, obs, views):
    out = []
    prev_tables = None
    prev_diff = set()
    reported_uninstallable = set()
    for i, (it, o) in enumerate(zip(intents, obs)):
        if "panic" in o or o.get("blocked"):
            break
        act = tables_of(o)
        img = image(o["store"], case["cfg"])
        dall = set(diff_tables(act, img))
        d = sorted(dall - prev_diff)       # attribute a difference to the event at which it first appears
        prev_diff = dall
        if d:
            kinds = sorted({f"{m}:{k}" for m, k, _ in d})
            out.append((f"tables-not-image/{it.get('op')}:{it.get('kind','')}/" + ",".join(kinds),
                        f"event {i} ({it.get('op')}/{it.get('kind','')}): BESS tables differ from the image of the stored rules: {d[:4]}", i))
        # an accepted PDR that the plug-in cannot install at all
        for s_ in o["store"]:
            for p_ in s_["pdrs"]:
                key = (s_["lseid"], p_["id"])
                if cartesian(p_["f_sp"], p_["f_dp"]) is None and key not in reported_uninstallable:
                    reported_uninstallable.add(key)
                    out.append(("pdr-not-installable", f"event {i}: PDR {p_['id']} of session {s_['lseid']} was accepted but its port ranges "
                                f"{p_['f_sp']} x {p_['f_dp']} cannot be installed: no pdrLookup entry exists for it", i))
        # what the agent holds is what the control plane asked for
        if i < len(views):
            ms = compare_store(views[i], o["store"])
            if ms:
                out.append(("store-not-request", f"event {i} ({it.get('op')}/{it.get('kind','')}): stored rules differ from the request's rules: {ms[:4]}", i))
        # rejected for unknown session / missing association: nothing written
        if it.get("expect") in ("reject-unknown", "reject-noassoc") or (it.get("op") == "est" and it.get("expect") == "reject"):
            if o["cmds"]:
                out.append(("rejected-but-wrote", f"event {i}: request expected to be rejected ({it['expect']}) wrote {o['cmds'][:3]}", i))
            if prev_tables is not None and act != prev_tables:
                out.append(("rejected-but-changed", f"event {i}: tables changed by a rejected request", i))
        if it.get("op") == "restart":
            if any(act[m] for m in act):
                out.append(("restart-not-cleared", f"event {i}: tables not empty after restart: { {m: len(act[m]) for m in act} }", i))
        prev_tables = act
    return out


def mon_c05(case, intents, obs):
    out = []
    prev_leaked = set()
    for i, (it, o) in enumerate(zip(intents, obs)):
        if "panic" in o or o.get("blocked"):
            break
        store = o["store"]
        pools = o["pools"]
        live = {s["lseid"] for s in store}
        # ledger: everything held belongs to a live session
        if pools["gauge"] != len(store):
            out.append(("gauge", f"event {i} ({it.get('op')}): sessions gauge {pools['gauge']} != {len(store)} live sessions", i))
        held_ip = {k for k, _ in pools.get("ip_inv", [])}
        if not held_ip <= live:
            out.append(("ue-ip-leak", f"event {i} ({it.get('op')}): UE addresses held for ended sessions {sorted(held_ip - live)}", i))
        want_teids = sorted(p["teid"] for s in store for p in s["pdrs"] if p["choose"] and p["teid"] != 0)
        if sorted(pools["teids"]) != want_teids:
            out.append(("teid-leak", f"event {i} ({it.get('op')}): TEIDs in use {pools['teids']} but live sessions own {want_teids}", i))
        act = tables_of(o)
        owners = set()
        for k, v in act["pdrLookup"].items():
            owners.add(v[3])
        for k in act["farLookup"]:
            owners.add(k[1])
        for k in act["appQERLookup"]:
            owners.add(k[2])
        for k in act["sessionQERLookup"]:
            owners.add(k[1])
        leaked = owners - live - prev_leaked
        prev_leaked = owners - live
        if leaked:
            mods = sorted(m for m in act if any((v[3] if m == "pdrLookup" else (k[1] if m in ("farLookup", "sessionQERLookup") else k[2])) in leaked
                                                 for k, v in act[m].items()))
            out.append((f"entry-of-ended-session/{it.get('op')}/" + ",".join(mods),
                        f"event {i} ({it.get('op')}): datapath entries of sessions {sorted(leaked)} that no longer exist (modules {mods})", i))
        for l in it.get("ends", []):
            if l in live:
                out.append(("session-not-ended", f"event {i} ({it.get('op')}): session {l} should have ended but is still stored", i))
    return out


def mon_c14(case, intents, obs):
    out = []
    enabled = case["cfg"]["end_marker"]
    for i, (it, o) in enumerate(zip(intents, obs)):
        if "panic" in o or o.get("blocked"):
            break
        got = [{"src": m.get("src"), "dst": m.get("dst"), "teid": m.get("teid")} for m in o.get("markers", [])]
        want = []
        if o.get("em_queued"):
            out.append(("end-markers-queued-while-disabled", f"event {i}: {o['em_queued']} end markers in the plug-in's queue although end markers are "
                        "disabled (nothing drains it: the 1025th blocks the receive loop)", i))
            break
        if it.get("op") == "mod" and it.get("expect") == "accept" and enabled:
            rs = replies_of(o)
            if rs and rs[0][1].get("cause") == P.CAUSE_ACCEPTED:
                want = it.get("markers", [])
        if got != want:
            out.append(("end-markers", f"event {i} ({it.get('op')}/{it.get('kind','')}): end markers {got}, expected {want}", i))
        for m in o.get("markers", []):
            if m.get("sport") != 2152 or m.get("dport") != 2152 or m.get("gtp_type") != 254:
                out.append(("end-marker-shape", f"event {i}: malformed end marker {m}", i))
    return out


# ------------------------------------------------------------------------------------------------
# fixed scenarios: each reproduces one recorded finding (tag) on the unchanged tree. Their failures
# carry the tag in the signature, so only exactly these shapes are suppressed by known_findings.

def scenario(rng_seed=0):
    import random
    g = Gen(random.Random(f"scenario-{rng_seed}"))
    views = []
    g.setup(0)
    g.setup(1)
    return g, views


def _finish(g, views_hint=None):
    # views: recompute by replaying is not possible; scenarios record a view after every event explicitly
    return {"cfg": g.cfg, "events": g.events}, g.intents


def corpus_scenarios():
    """-> list of (tag, case, intents, views)"""
    out = []

    def run(tag, build):
        import random
        g = Gen(random.Random("corpus-" + tag))
        views = []

        def snap():
            while len(views) < len(g.events):
                views.append(g.view())
        g.setup(0)
        snap()
        build(g, snap)
        snap()
        out.append((tag, {"cfg": g.cfg, "events": g.events}, g.intents, views))

    # F13b: a session with two QERs (one becomes the session QER); updating a QER re-labels it: the update is
    # written to the application table while the stored QER stays / becomes session level
    def f13b(g, snap):
        l = g.establish(0, npairs=1, nqers=2, chv4=False, choose=False, with_sdf=False)
        snap()
        s = g.sessions[l]
        for qid in (1, 2):
            seq = g._seq()
            nq = dict(s["qers"][qid])
            nq["mbr"] = (777, 888)
            nq["gbr"] = (0, 0)
            s["qers"][qid] = nq
            g.emit(0, P.message(P.SM_REQ, seq, [qer_ie(P.UPDATE_QER, nq)], seid=l),
                   {"op": "mod", "seq": seq, "req": P.SM_REQ, "wf": True, "lseid": l, "expect": "accept", "kind": "upd_qer2",
                    "markers": [], "cp_seid": s["cp_seid"]})
            snap()
        g.delete(l)
    run("F13b", f13b)

    # F37: the PDR that made the UPF allocate the UE address is removed by a modification; the address then
    # stays in the pool's inventory also after the session is deleted
    def f37(g, snap):
        seq = g._seq()
        ue = ip(10, 60, 1, 1)
        p1u, p1d = g.new_pdr_pair(0, with_sdf=False, choose=False, chv4=False, fixed_ue=ue)
        p2u, p2d = g.new_pdr_pair(1, choose=False, chv4=True)
        f = list(g.new_far_pair(0)) + list(g.new_far_pair(1))
        lseid = 1000001
        g.next_lseid[0] = 1
        ies = [P.node_id_v4(peer_ip(0)), P.fseid(77, peer_ip(0))] + [pdr_ie(P.CREATE_PDR, p) for p in (p1u, p1d, p2u, p2d)] + [far_ie(P.CREATE_FAR, x) for x in f]
        g.emit(0, P.message(P.SE_REQ, seq, ies, seid=0), {"op": "est", "seq": seq, "req": P.SE_REQ, "wf": True, "expect": "accept", "lseid": lseid,
                                                           "cp_seid": 77, "pdrs": [p1u, p1d, p2u, p2d], "fars": f, "qers": []})
        g.sessions[lseid] = {"conn": 0, "cp_seid": 77, "pdrs": {p["id"]: p for p in (p1u, p1d, p2u, p2d)}, "fars": {x["id"]: x for x in f}, "qers": {}}
        snap()
        g.rm_last_only = True           # the pair to go is the second one (whose PDR made the UPF allocate the address)
        g.modify(lseid, kind="rm_pair")
        snap()
        g.delete(lseid)
    run("F37", f37)

    # F12: a modification that is rejected half-way (Remove FAR names an unknown id after a Remove PDR was
    # already applied): the answer is a rejection but store and datapath have changed
    def f12(g, snap):
        l = g.establish(0, npairs=2, nqers=0, chv4=False, choose=False)
        snap()
        seq = g._seq()
        ies = [P.grouped(P.REMOVE_PDR, P.u16(P.PDR_ID, 1)), P.grouped(P.REMOVE_FAR, P.u32(P.FAR_ID, 999))]
        g.emit(0, P.message(P.SM_REQ, seq, ies, seid=l), {"op": "mod", "seq": seq, "req": P.SM_REQ, "wf": True, "lseid": l, "expect": "reject",
                                                          "kind": "rm_unknown_far", "markers": []})
        snap()
        g.delete(l)
    run("F12", f12)

    # F13: Update PDR that changes the match key (new SDF filter): the entry under the old key stays
    def f13(g, snap):
        l = g.establish(0, npairs=1, nqers=0, chv4=False, choose=False, with_sdf=False)
        snap()
        s = g.sessions[l]
        p = dict(s["pdrs"][2])
        sd = {"text": "permit out udp from 8.8.8.0/24 53 to assigned", "rip": ip(8, 8, 8, 0), "rmask": 0xFFFFFF00, "proto": 17, "ports": (53, 53)}
        p["sdf"], p["sdf_sem"] = sd["text"], sd
        s["pdrs"][2] = p
        seq = g._seq()
        g.emit(0, P.message(P.SM_REQ, seq, [pdr_ie(P.UPDATE_PDR, p)], seid=l),
               {"op": "mod", "seq": seq, "req": P.SM_REQ, "wf": True, "lseid": l, "expect": "accept", "kind": "upd_pdr_key", "markers": [], "cp_seid": s["cp_seid"]})
        snap()
        g.delete(l)
    run("F13", f13)

    # F14: a port pair the Exact strategy cannot represent (1001 ports): PFCP accept, nothing installed
    def f14(g, snap):
        seq = g._seq()
        ue = ip(10, 60, 2, 2)
        u, d = g.new_pdr_pair(0, with_sdf=False, choose=False, chv4=False, fixed_ue=ue)
        sd = {"text": "permit out ip from any 1000-2000 to assigned", "rip": 0, "rmask": 0, "proto": None, "ports": (1000, 2000)}
        d["sdf"], d["sdf_sem"] = sd["text"], sd
        f = list(g.new_far_pair(0))
        lseid = 1000001
        g.next_lseid[0] = 1
        ies = [P.node_id_v4(peer_ip(0)), P.fseid(78, peer_ip(0))] + [pdr_ie(P.CREATE_PDR, p) for p in (u, d)] + [far_ie(P.CREATE_FAR, x) for x in f]
        g.emit(0, P.message(P.SE_REQ, seq, ies, seid=0), {"op": "est", "seq": seq, "req": P.SE_REQ, "wf": True, "expect": "accept", "lseid": lseid,
                                                           "cp_seid": 78, "pdrs": [u, d], "fars": f, "qers": [], "kind": "wide_range"})
        g.sessions[lseid] = {"conn": 0, "cp_seid": 78, "pdrs": {p["id"]: p for p in (u, d)}, "fars": {x["id"]: x for x in f}, "qers": {}}
        snap()
        g.delete(lseid)
    run("F14", f14)

    # F43: {Remove PDR 2, Create PDR 4 with the same PDI} in one modification: the creates are written to the
    # datapath before the removes, so the delete of PDR 2's key wipes the entry just written for PDR 4
    def f43(g, snap):
        l = g.establish(0, npairs=1, nqers=0, chv4=False, choose=False, with_sdf=False)
        snap()
        s = g.sessions[l]
        np_ = dict(s["pdrs"][2])
        np_["id"] = 4
        np_.pop("perm", None)
        seq = g._seq()
        ies = [P.grouped(P.REMOVE_PDR, P.u16(P.PDR_ID, 2)), pdr_ie(P.CREATE_PDR, np_)]
        del s["pdrs"][2]
        s["pdrs"][4] = np_
        g.emit(0, P.message(P.SM_REQ, seq, ies, seid=l),
               {"op": "mod", "seq": seq, "req": P.SM_REQ, "wf": True, "lseid": l, "expect": "accept", "kind": "replace_same_key", "markers": [], "cp_seid": s["cp_seid"]})
        snap()
        g.delete(l)
    run("F43", f43)
    return out


def mon_c06(case, intents, obs):
    """C06 at the agent level: addresses handed to the control plane (Created PDR) lie strictly inside the pool, are
    held by one live session only, stick to the session, and every address of the inventory belongs to a live
    session (an address kept for a session that no longer exists makes the pool refuse while not every address is
    held); free + held is the whole pool."""
    out = []
    cfg = case["cfg"]
    if not cfg.get("ueip_alloc"):
        return out
    addr, ln = cfg["pool"].split("/")
    a, b, c, d = (int(x) for x in addr.split("."))
    ln = int(ln)
    base = ip(a, b, c, d) & ((M32 << (32 - ln)) & M32)
    size = 1 << (32 - ln)
    given = {}
    for i, (it, o) in enumerate(zip(intents, obs)):
        if "panic" in o or o.get("blocked"):
            break
        pools = o["pools"]
        live = {s["lseid"] for s in o["store"]}
        inv = dict((k, v) for k, v in pools.get("ip_inv", []))
        if len(inv) + pools.get("ip_free", 0) != size - 2:
            out.append(("pool-not-conserved", f"event {i} ({it.get('op')}/{it.get('kind', '')}): free {pools.get('ip_free')} + held {len(inv)} != {size - 2}", i))
        if len(set(inv.values())) != len(inv):
            out.append(("address-held-twice", f"event {i}: one address in the inventory for two sessions: {inv}", i))
        for s_ in o["store"]:
            for p_ in s_["pdrs"]:
                if p_["alloc_ip"] and inv.get(s_["lseid"]) != p_["ue"]:
                    out.append(("live-address-not-held", f"event {i} ({it.get('op')}/{it.get('kind', '')}): session {s_['lseid']} uses the UPF-chosen address "
                                f"{p_['ue']} but the pool records {inv.get(s_['lseid'])} for it (the address can be handed to another session)", i))
        ghosts = sorted(set(inv) - live)
        if ghosts:
            out.append(("address-held-by-no-session", f"event {i} ({it.get('op')}/{it.get('kind', '')}): addresses held for sessions that do not exist {ghosts}", i))
        for c_, m in replies_of(o):
            if m.get("type") == P.SE_RSP and m.get("cause") == P.CAUSE_ACCEPTED:
                for cp in m.get("created", []):
                    if "ueip" in cp:
                        u = cp["ueip"]
                        if not (base < u < base + size - 1):
                            out.append(("address-out-of-range", f"event {i}: UE address {u} outside the pool or its network/broadcast address", i))
                        holders = [s["lseid"] for s in o["store"] for p in s["pdrs"] if p["alloc_ip"] and p["ue"] == u]
                        if len(set(holders)) > 1:
                            out.append(("address-given-twice", f"event {i}: UE address {u} is held by sessions {sorted(set(holders))}", i))
            if m.get("type") == P.SE_RSP and m.get("cause") not in (None, P.CAUSE_ACCEPTED) and it.get("expect") == "accept":
                # refusal only when every address is held
                want_alloc = any(p.get("ue") == "chv4" for p in it.get("pdrs", []))
                if want_alloc and len(live) < size - 2 and pools.get("ip_free", 0) == 0:
                    out.append(("refused-while-not-all-held", f"event {i}: allocation refused with {len(live)} live sessions on a pool of {size - 2}", i))
    return out


# ------------------------------------------------------------------------------------------------
# soak scenarios: valid requests only, more of them than any queue inside the agent holds

def soak_scenarios(rng):
    """-> (name, case, intents, number of probe events at the end). Events marked q are not dumped by the harness."""
    out = []
    for em in (False, True):
        g = Gen(rng, cfg=default_cfg(end_marker=em))
        g.setup(0)
        l = g.establish(0, npairs=1, nqers=1, chv4=False, choose=False)
        for _ in range(1600):      # three in four carry the send-end-marker flag
            g.modify(l, kind="upd_far_em")
        g.heartbeat(0)
        g.setup(1)
        g.heartbeat(1)
        g.delete(l)
        for e in g.events[2:-4]:
            e["q"] = True
        out.append((f"1600-end-marker-updates/end_marker={em}", {"cfg": g.cfg, "events": g.events}, g.intents, 4))
    # the datapath goes away and comes back: an association is accepted exactly when it is connected at that moment
    g = Gen(rng)
    g.setup(0)
    l = g.establish(0, npairs=1, nqers=1, chv4=False, choose=False)
    g.heartbeat(0)
    g.datapath(False)
    g.heartbeat(0)
    g.setup(1)                        # rejected: no datapath behind the agent
    g.heartbeat(1)
    g.datapath(True)
    g.establish(1, npairs=1, nqers=1, chv4=False, choose=False)      # the rejected set-up left no association: refused, writes nothing
    g.setup(1)
    l2 = g.establish(1, npairs=1, nqers=1, chv4=False, choose=False)
    g.delete(l2)
    g.delete(l)
    out.append(("datapath-down-and-up", {"cfg": g.cfg, "events": g.events}, g.intents, 4))
    for hb in (True, False):
        g = Gen(rng, cfg=default_cfg(hb_timer=hb))
        for _ in range(130):
            g.heartbeat(0)                # before association: nothing drains the heartbeat reset queue
        g.setup(0)
        for _ in range(130):
            g.heartbeat(0)
        l = g.establish(0, npairs=1, nqers=1, chv4=False, choose=False)
        g.delete(l)
        for e in g.events[:-3]:
            e["q"] = True
        out.append((f"130-heartbeats-before-and-after-association/hb_timer={hb}", {"cfg": g.cfg, "events": g.events}, g.intents, 3))
    return out


def pool_scenarios(rng):
    """fixed histories on tiny pools for C06 / C05 (monitor only, not replayed on the Coq model):
    -> (name, case, intents, number of probe events at the end)"""
    out = []
    # a refused datapath write on deletion: the session stays and keeps its address
    g = Gen(rng, cfg=default_cfg(pool="10.250.0.8/30"))
    g.setup(0)
    a = g.establish(0, npairs=1, nqers=1, chv4=True, choose=True)
    g.refuse_writes(1)
    g.delete(a, refused=True)
    b = g.establish(0, npairs=1, nqers=0, chv4=True, choose=True)     # must get the other address
    g.delete(a)
    c = g.establish(0, npairs=1, nqers=0, chv4=True, choose=False)    # a's address is free again
    g.delete(b)
    g.delete(c)
    g.heartbeat(0)
    out.append(("refused-deletion-keeps-the-session", {"cfg": g.cfg, "events": g.events}, g.intents, 1))
    # two downlink PDRs share the session's one UPF-chosen address; one of them is removed; the pool is cycled
    g = Gen(rng, cfg=default_cfg(pool="10.250.0.8/29"))
    g.setup(0)
    a = g.establish(0, npairs=2, nqers=1, chv4=True, choose=True)
    g.modify(a, kind="rm_pair")
    others = []
    for _ in range(5):
        others.append(g.establish(0, npairs=1, nqers=0, chv4=True, choose=False))
    for l in others[:3]:
        g.delete(l)
    for _ in range(3):
        others.append(g.establish(0, npairs=1, nqers=0, chv4=True, choose=False))
    g.delete(a)
    for l in others[3:]:
        g.delete(l)
    g.heartbeat(0)
    out.append(("shared-address-after-remove-pdr", {"cfg": g.cfg, "events": g.events}, g.intents, 1))
    return out


def variant_scenarios(rng, per_variant=4):
    """random valid histories under configuration variants the Coq-replayed histories do not use (monitor only):
    Node ID configured as an address other than the N4 address / as a name, debug log level, heartbeat monitor on.
    -> (name, case, intents, number of probe events at the end)"""
    out = []
    variants = [("node-id-other-address", dict(node_id="192.0.2.77")), ("node-id-name", dict(node_id="upf.example.org")),
                ("log-level-debug", dict(log_level="debug")), ("log-level-debug-small-pool", dict(log_level="debug", pool="10.250.0.8/29")),
                ("heartbeat-monitor", dict(hb_timer=True))]
    for name, kw in variants:
        for k in range(per_variant):
            sub = random.Random(rng.getrandbits(64))
            case, intents, views = random_history(sub, cfg=default_cfg(**kw), length=sub.choice([10, 16]), restarts=False)
            out.append((f"{name}/{k}", case, intents, 0))
    return out


def pfd_then_pdr_scenarios(rng):
    """a PFD Management Request with a flow description that cannot be parsed (accepted: texts are stored verbatim),
    then Session Establishments / Modifications whose PDRs name that application, then probes (monitor only)"""
    out = []
    base = ["permit out ip from any to assigned", "permit in ip from any 5000 to assigned"]
    bad = ["permit out ip from any", "permit out", "x", "permit out ip from 1.2.3 to assigned", "permit in ip from any 9-1 to assigned",
           "deny sideways ip from any to any", "permit out ip from any to"]
    for k, b in enumerate(bad):
        for order in (0, 1):
            g = Gen(rng)
            g.setup(0)
            flows = [b, base[0], base[1]] if order == 0 else [base[0], b, base[1]]
            g.pfd(0, {"app1": flows, "app2": [b]})
            g.intents[-1]["wf"] = False        # accepted (texts are stored verbatim) or refused by the decoder: both allowed
            for app in ("app1", "app2"):
                seq = g._seq()
                ue = ip(10, 60, 7, 1 + k)
                ul, dl = g.new_pdr_pair(0, with_sdf=False, choose=False, chv4=False, fixed_ue=ue)
                ul["appid"] = dl["appid"] = app
                ulf, dlf = g.new_far_pair(0)
                n = g.next_lseid.get(0, 0) + 1
                g.next_lseid[0] = n
                lseid = 1000000 + n
                ies = [P.node_id_v4(peer_ip(0)), P.fseid(500 + n, peer_ip(0))] + [pdr_ie(P.CREATE_PDR, x) for x in (ul, dl)] + [far_ie(P.CREATE_FAR, x) for x in (ulf, dlf)]
                # accepted with the application's usable flow, or refused: either is allowed here, but exactly one answer and no crash
                g.emit(0, P.message(P.SE_REQ, seq, ies, seid=0), {"op": "est", "seq": seq, "req": P.SE_REQ, "wf": False, "lseid": lseid, "kind": "app-with-bad-flow"})
            g.heartbeat(0)
            g.setup(1)
            l = g.establish(1, npairs=1, nqers=1, chv4=False, choose=False)
            g.delete(l)
            out.append((f"pfd-bad-flow/{k}/{order}", {"cfg": g.cfg, "events": g.events}, g.intents, 4))
    return out


def mon_rejected_writes_nothing(case, intents, obs):
    """C03's last sentence on the fixed scenarios: a request expected to be rejected is rejected and sends no command to the datapath"""
    out = list(mon_c02(case, intents, obs))
    for i, (it, o) in enumerate(zip(intents, obs)):
        if str(it.get("expect", "")).startswith("reject") and it.get("req") in (P.SE_REQ, P.SM_REQ, P.SD_REQ) and not it.get("refused_by_datapath"):
            n = o["cmds"] if isinstance(o.get("cmds"), int) else len([c for c in o.get("cmds", []) if c.get("c") != "clear"])
            if n:
                out.append(("rejected-request-wrote", f"event {i} ({it.get('op')}/{it.get('expect')}): a rejected request sent {n} commands to the datapath", i))
    return out


def report_scenarios(rng):
    """C13 at the agent level (monitor only): downlink data reports for a session whose downlink FAR buffers and notifies,
    before and after a Session Modification that changes the control plane's F-SEID: every Session Report Request is
    addressed with the control plane's CURRENT SEID for that session.
    -> (name, case, intents, number of probe events at the end)"""
    out = []
    for variant in ("cp-fseid-changed", "cp-fseid-changed-twice", "two-sessions"):
        g = Gen(rng)
        g.setup(0)
        ls = [g.establish(0, npairs=1, nqers=0, chv4=False, choose=False, with_sdf=False)]
        if variant == "two-sessions":
            ls.append(g.establish(0, npairs=1, nqers=0, chv4=False, choose=False, with_sdf=False))
        for l in ls:
            g.modify(l, kind="upd_far_buffer")

        def report(l):
            g.events.append({"k": "report", "conn": 0, "fseid": l})
            g.intents.append({"op": "report", "conn": 0, "lseid": l, "want_seid": g.sessions[l]["cp_seid"], "want_pdr": 2})
        for l in ls:
            report(l)
        for _ in range(2 if variant == "cp-fseid-changed-twice" else 1):
            for l in ls:
                g.modify(l, kind="cp_fseid")
                report(l)
        for l in ls:
            g.delete(l)
        g.heartbeat(0)
        out.append((f"report-after-{variant}", {"cfg": g.cfg, "events": g.events}, g.intents, 1))
    return out


def mon_c13_reports(case, intents, obs):
    out = []
    for i, (it, o) in enumerate(zip(intents, obs)):
        if "panic" in o or o.get("blocked"):
            out.append(("agent-died", f"event {i}: {o.get('panic')}", i))
            break
        if it.get("op") != "report":
            continue
        rs = [m for c_, m in replies_of(o) if m.get("type") == P.SR_REQ]
        if len(rs) != 1:
            out.append(("report:not-exactly-one-request", f"event {i}: {len(rs)} Session Report Requests for a downlink data report of session {it['lseid']} "
                        "(buffering FAR with NOTIFY, first report of the session's interval is per connection literal: no rate limiter here)", i))
            continue
        m = rs[0]
        if m.get("seid") != it["want_seid"]:
            out.append(("report:stale-control-plane-seid", f"event {i}: Session Report Request addressed with SEID {m.get('seid')}, the control plane's "
                        f"current SEID for session {it['lseid']} is {it['want_seid']}", i))
        if m.get("dldr_pdr") != it["want_pdr"]:
            out.append(("report:wrong-pdr", f"event {i}: Downlink Data Report names PDR {m.get('dldr_pdr')}, expected {it['want_pdr']}", i))
    return out
