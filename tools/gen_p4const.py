#!/usr/bin/env python3
"""T1 translator: $VERIF_REPO/internal/p4constants/p4constants.go -> coq/Gen/P4Const_gen.v  (DESIGN.md 3.3).

Reads exactly the shape cmd/p4info_code_gen emits (after gofmt): one const block with `// Section` comments
and `Name type = number` lines, then pairs of functions Get<Kind>IDToNameMap / Get<Kind>IDList returning a
literal.  Anything else raises P4ConstSyntaxError (broken tie, never a silent skip).

Output: consts   : list (kind * identifier-without-kind-prefix * value)
        id_maps  : list (Kind * list (id * P4 name))      the file's own id -> name maps
        id_lists : list (Kind * list id)                  the file's own id lists
Also importable: `load(path)` returns the same as Python data for the implementation-side comparison.
"""
import os
import re
import sys

VERIF = os.path.dirname(os.path.dirname(os.path.abspath(__file__)))
REPO = os.environ.get("VERIF_REPO", "/repo")
SRC_REL = os.path.join("internal", "p4constants", "p4constants.go")
OUT = os.path.join(os.environ.get("VERIF_COQ_DIR", os.path.join(VERIF, "coq")), "Gen", "P4Const_gen.v")


class P4ConstSyntaxError(Exception):
    pass


# section comment -> [(identifier prefix = kind, Go type)], longest prefix first
SECTIONS = {
    "HeaderFields": [("Hdr", "uint32")],
    "Tables": [("Table", "uint32")],
    "Actions": [("Action", "uint32")],
    "ActionParams": [("ActionParam", "uint32")],
    "IndirectCounters": [("CounterSize", "uint64"), ("Counter", "uint32")],
    "DirectCounters": [("DirectCounter", "uint32")],
    "ActionProfiles": [("ActionProfile", "uint32")],
    "PacketMetadata": [("PacketMeta", "uint32")],
    "Meters": [("MeterSize", "uint64"), ("Meter", "uint32")],
    "Enumerators": [("BitwidthMf", "int32"), ("BitwidthAp", "int32"), ("Enum", "uint32")],
}
FUNC_KINDS = ["Table", "Action", "ActionProfile", "Counter", "DirectCounter", "Meter", "DirectMeter",
              "ControllerPacketMetadata", "Register"]

CONST_LINE = re.compile(r"^\t([A-Z][A-Za-z0-9]*)\s+(uint32|uint64|int32)\s+=\s+(\d+)$")
MAP_OPEN = re.compile(r"^func Get([A-Za-z]+)IDToNameMap\(\) map\[uint32\]string \{$")
LIST_OPEN = re.compile(r"^func Get([A-Za-z]+)IDList\(\) \[\]uint32 \{$")
MAP_ENTRY = re.compile(r'^\t\t(\d+):\s+"([^"\\]*)",$')
LIST_ENTRY = re.compile(r"^\t\t(\d+),$")


def load(path=None):
    path = path or os.path.join(REPO, SRC_REL)
    lines = open(path, encoding="ascii", errors="strict").read().split("\n")
    n = len(lines)
    i = 0

    def err(msg):
        raise P4ConstSyntaxError(f"{SRC_REL}:{i + 1}: {msg}: {lines[i] if i < n else '<eof>'!r}")

    # header: comments, blank lines, package clause
    while i < n and (lines[i].startswith("//") or lines[i] == ""):
        i += 1
    if i >= n or lines[i] != "package p4constants":
        err("package clause expected")
    i += 1
    while i < n and lines[i] == "":
        i += 1
    if i >= n or lines[i] != "const (":
        err("'const (' expected")
    i += 1
    consts = []
    section = None
    while i < n and lines[i] != ")":
        ln = lines[i]
        if ln.startswith("\t// "):
            section = ln[4:].strip()
            if section not in SECTIONS:
                err("unknown section comment")
        else:
            m = CONST_LINE.match(ln)
            if not m:
                err("constant declaration not understood")
            if section is None:
                err("constant before any section comment")
            ident, typ, val = m.group(1), m.group(2), int(m.group(3))
            for prefix, want in SECTIONS[section]:
                if ident.startswith(prefix) and len(ident) > len(prefix):
                    if typ != want:
                        err(f"constant of kind {prefix} must have type {want}")
                    consts.append((prefix, ident[len(prefix):], val))
                    break
            else:
                err(f"identifier does not carry a prefix of section {section}")
        i += 1
    if i >= n:
        err("unterminated const block")
    i += 1
    maps, lists = [], []
    while i < n:
        if lines[i] == "":
            i += 1
            continue
        mm, ml = MAP_OPEN.match(lines[i]), LIST_OPEN.match(lines[i])
        if not (mm or ml):
            err("function header not understood")
        kind = (mm or ml).group(1)
        if kind not in FUNC_KINDS:
            err("unknown entity kind in function name")
        i += 1
        lit = "map[uint32]string" if mm else "[]uint32"
        if i < n and lines[i] == f"\treturn {lit}{{}}":
            entries = []
            i += 1
        elif i < n and lines[i] == f"\treturn {lit}{{":
            i += 1
            entries = []
            while i < n and lines[i] != "\t}":
                e = (MAP_ENTRY if mm else LIST_ENTRY).match(lines[i])
                if not e:
                    err("literal entry not understood")
                entries.append((int(e.group(1)), e.group(2)) if mm else int(e.group(1)))
                i += 1
            if i >= n:
                err("unterminated literal")
            i += 1
        else:
            err("return of a literal expected")
        if i >= n or lines[i] != "}":
            err("'}' expected")
        i += 1
        (maps if mm else lists).append((kind, entries))
    if [k for k, _ in maps] != FUNC_KINDS or [k for k, _ in lists] != FUNC_KINDS:
        raise P4ConstSyntaxError(f"{SRC_REL}: the id map / id list functions are not the nine kinds in generator order")
    return {"consts": consts, "maps": maps, "lists": lists}


def gs(s):
    if any(ord(c) > 126 or ord(c) < 32 for c in s):
        raise P4ConstSyntaxError(f"name {s!r} is not printable ASCII")
    return '"' + s.replace('"', '""') + '"'


def gl(xs, indent="  "):
    if not xs:
        return "[]"
    return "[\n" + ";\n".join(indent + x for x in xs) + "]"


def render(d):
    o = [f"(* GENERATED by tools/gen_p4const.py from {SRC_REL} - do not edit. *)",
         "From Coq Require Import NArith List String.", "Import ListNotations.", "Open Scope N_scope.", "Open Scope string_scope.", ""]
    o.append("Definition consts : list (string * string * N) := " +
             gl([f"({gs(k)}, {gs(i)}, {v})" for k, i, v in d["consts"]]) + ".\n")
    o.append("Definition id_maps : list (string * list (N * string)) := " +
             gl([f"({gs(k)}, " + gl([f"({i}, {gs(nm)})" for i, nm in es], "     ") + ")" for k, es in d["maps"]]) + ".\n")
    o.append("Definition id_lists : list (string * list N) := " +
             gl([f"({gs(k)}, " + gl([str(i) for i in es], "     ") + ")" for k, es in d["lists"]]) + ".")
    return "\n".join(o) + "\n"


def write_if_changed(path, text):
    os.makedirs(os.path.dirname(path), exist_ok=True)
    old = open(path).read() if os.path.exists(path) else None
    if old != text:
        with open(path, "w") as f:
            f.write(text)
        return True
    return False


def main(repo=None):
    repo = repo or REPO
    return write_if_changed(OUT, render(load(os.path.join(repo, SRC_REL))))


if __name__ == "__main__":
    try:
        changed = main()
    except (P4ConstSyntaxError, OSError, UnicodeDecodeError) as e:
        print(f"gen_p4const: {e}", file=sys.stderr)
        sys.exit(2)
    print("P4Const_gen.v " + ("rewritten" if changed else "unchanged"))
