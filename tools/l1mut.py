"""IE-level mutations of every message type the agent dispatches (C01): drop / duplicate / empty /
retype / truncate / IPv6-only / truncated flow description, at every IE position of the tree, injected
in several association/session states, each followed by probes that must be processed normally."""
import random
import struct

import pfcp as P
import l1

GROUPED = {P.CREATE_PDR, P.PDI, P.CREATE_FAR, P.FWD_PARAMS, P.CREATE_QER, P.UPDATE_PDR, P.UPDATE_FAR, P.UPD_FWD_PARAMS,
           P.UPDATE_QER, P.REMOVE_PDR, P.REMOVE_FAR, P.REMOVE_QER, P.APP_IDS_PFDS, P.PFD_CONTEXT, 85, 83}


def parse(b):
    """bytes -> list of [type, payload bytes | list of children]"""
    out = []
    i = 0
    while i + 4 <= len(b):
        t, ln = struct.unpack("!HH", b[i:i + 4])
        pay = b[i + 4:i + 4 + ln]
        i += 4 + ln
        out.append([t, parse(pay) if t in GROUPED else pay])
    return out


def ser(tree):
    out = b""
    for t, v in tree:
        pay = ser(v) if isinstance(v, list) else v
        out += struct.pack("!HH", t, len(pay)) + pay
    return out


def paths(tree, prefix=()):
    for i, (t, v) in enumerate(tree):
        yield prefix + (i,)
        if isinstance(v, list):
            yield from paths(v, prefix + (i,))


def get(tree, path):
    node = tree
    for k in path[:-1]:
        node = node[k][1]
    return node, path[-1]


def clone(tree):
    return [[t, clone(v) if isinstance(v, list) else v] for t, v in tree]


V6 = bytes(range(16))


def v6_only(t, pay):
    """IPv6-only rendering of an IE that can carry an address, else None"""
    if t == P.FSEID and len(pay) >= 9:
        return bytes([0x01]) + pay[1:9] + V6
    if t == P.FTEID and len(pay) >= 5 and not pay[0] & 4:
        return bytes([0x02]) + pay[1:5] + V6
    if t == P.FTEID and pay and pay[0] & 4:
        return bytes([0x06])
    if t == P.UE_IP:
        return bytes([0x01]) + V6
    if t == P.OHC and len(pay) >= 6:
        return b"\x02\x00" + pay[2:6] + V6
    if t == P.NODE_ID:
        return b"\x01" + V6
    return None


def flow_variants(text):
    toks = text.split()
    out = []
    for k in range(len(toks)):
        out.append(" ".join(toks[:k]))                     # truncated after k tokens
        out.append(" ".join(toks[:k] + toks[k + 1:]))      # token k deleted
    out += ["", " ", text + " extra", text.replace("from", "to"), text.replace("-", "--"), text.replace("permit", "allow"),
            text.replace("out", "sideways"), text + " 70000", text.replace("assigned", "1.2.3.4/33"), text.replace("assigned", "::1")]
    return out


def mutants(tree):
    """-> list of (kind, path, new tree)"""
    out = []
    for p in paths(tree):
        node, k = get(tree, p)
        t, v = node[k]
        for kind in ("drop", "dup", "empty", "retype", "trunc1", "trunchalf", "grow"):
            m = clone(tree)
            n2, k2 = get(m, p)
            if kind == "drop":
                del n2[k2]
            elif kind == "dup":
                n2.insert(k2, [t, clone(v) if isinstance(v, list) else v])
            elif kind == "empty":
                n2[k2][1] = b""
            elif kind == "retype":
                n2[k2][0] = t + 1
            elif kind in ("trunc1", "trunchalf"):
                raw = ser(v) if isinstance(v, list) else v
                if not raw:
                    continue
                cut = raw[:-1] if kind == "trunc1" else raw[:len(raw) // 2]
                n2[k2][1] = cut          # a grouped IE becomes an opaque (malformed) payload
            elif kind == "grow":
                raw = ser(v) if isinstance(v, list) else v
                n2[k2][1] = raw + b"\xff"
            out.append((kind, p, m))
        if not isinstance(v, list):
            alt = v6_only(t, v)
            if alt is not None:
                m = clone(tree)
                n2, k2 = get(m, p)
                n2[k2][1] = alt
                out.append(("v6only", p, m))
            if t == P.SDF_FILTER and len(v) > 4:
                for fv in flow_variants(v[4:].decode()):
                    m = clone(tree)
                    n2, k2 = get(m, p)
                    n2[k2][1] = b"\x01\x00" + struct.pack("!H", len(fv.encode())) + fv.encode()
                    out.append(("flow", p, m))
            if t == P.PFD_CONTENTS and len(v) > 4:
                for fv in flow_variants(v[4:].decode())[:12]:
                    m = clone(tree)
                    n2, k2 = get(m, p)
                    n2[k2][1] = b"\x01\x00" + struct.pack("!H", len(fv.encode())) + fv.encode()
                    out.append(("flow", p, m))
    return out


def base_messages(g, lseid):
    """one valid instance (IE bytes) of each dispatched message type -> (name, type, ies bytes, seid or None)"""
    ip = l1.ip
    sd = "permit out udp from 8.8.8.0/24 65500-65535 to assigned"     # a port range ending at the top of the port space
    pu = {"id": 1, "prec": 10, "iface": 0, "fteid": "choose", "ue": ip(10, 60, 0, 1), "sdf": sd, "ohr": True, "far": 1, "qers": [1, 2]}
    pd = {"id": 2, "prec": 10, "iface": 1, "ue": "chv4", "appid": "app1", "far": 2, "qers": [1, 2]}
    fu = {"id": 1, "action": 2, "fwd": {"dst_if": 1}}
    fd = {"id": 2, "action": 2, "fwd": {"dst_if": 0, "ohc": (0x77, ip(192, 168, 0, 7))}}
    q1 = {"id": 1, "qfi": 9, "gate": (0, 0), "mbr": (1000, 2000), "gbr": (10, 20)}
    q2 = {"id": 2, "qfi": 9, "gate": (0, 0), "mbr": (5000, 5000)}
    est = [P.node_id_v4(l1.peer_ip(0)), P.fseid(0x1111, l1.peer_ip(0))] + [l1.pdr_ie(P.CREATE_PDR, pu), l1.pdr_ie(P.CREATE_PDR, pd),
           l1.far_ie(P.CREATE_FAR, fu), l1.far_ie(P.CREATE_FAR, fd), l1.qer_ie(P.CREATE_QER, q1), l1.qer_ie(P.CREATE_QER, q2)]
    upd = dict(pd)
    upd["ue"] = ip(10, 60, 0, 9)
    mod = [P.fseid(0x2222, l1.peer_ip(0)),
           l1.pdr_ie(P.CREATE_PDR, {"id": 3, "prec": 11, "iface": 1, "ue": ip(10, 60, 0, 3), "sdf": "permit out tcp from any 443 to assigned", "far": 2, "qers": [1]}),
           l1.far_ie(P.CREATE_FAR, {"id": 3, "action": 2, "fwd": {"dst_if": 0, "ohc": (0x78, ip(192, 168, 0, 8))}}),
           l1.qer_ie(P.CREATE_QER, {"id": 3, "qfi": 5, "gate": (0, 0), "mbr": (1, 1)}),
           l1.pdr_ie(P.UPDATE_PDR, upd),
           l1.far_ie(P.UPDATE_FAR, {"id": 2, "action": 2, "fwd": {"dst_if": 0, "ohc": (0x79, ip(192, 168, 0, 9)), "smflags": 2}}),
           l1.qer_ie(P.UPDATE_QER, {"id": 1, "qfi": 9, "gate": (1, 0), "mbr": (3, 4)}),
           P.grouped(P.REMOVE_PDR, P.u16(P.PDR_ID, 1)), P.grouped(P.REMOVE_FAR, P.u32(P.FAR_ID, 1)), P.grouped(P.REMOVE_QER, P.u32(P.QER_ID, 2))]
    pfdm = [P.grouped(P.APP_IDS_PFDS, P.app_id("app1"), P.grouped(P.PFD_CONTEXT, P.pfd_contents(flow="permit in ip from any to assigned"),
                                                                   P.pfd_contents(flow="permit out tcp from 9.9.9.9 80 to assigned"))),
            P.grouped(P.APP_IDS_PFDS, P.app_id("app2"), P.grouped(P.PFD_CONTEXT, P.pfd_contents(flow="permit out ip from 1.1.1.1 to assigned")))]
    return [
        ("hb", P.HB_REQ, b"".join([P.recovery_ts(1000)]), None),
        ("hbrsp", P.HB_RSP, b"".join([P.recovery_ts(1000)]), None),
        ("setup", P.AS_REQ, b"".join([P.node_id_v4(l1.peer_ip(0)), P.recovery_ts(2000)]), None),
        ("setuprsp", P.AS_RSP, b"".join([P.node_id_v4(l1.peer_ip(0)), P.u8(P.CAUSE, 1), P.recovery_ts(2000)]), None),
        ("release", P.AR_REQ, b"".join([P.node_id_v4(l1.peer_ip(0))]), None),
        ("pfd", P.PFD_REQ, b"".join(pfdm), None),
        ("est", P.SE_REQ, b"".join(est), 0),
        ("mod", P.SM_REQ, b"".join(mod), lseid),
        ("del", P.SD_REQ, b"", lseid),
        ("srrsp", P.SR_RSP, b"".join([P.u8(P.CAUSE, P.CAUSE_CTX_NOT_FOUND)]), lseid),
    ]


STATES = ["fresh", "associated", "session", "session_nopdr", "after_reject", "released"]


def build_case(state, mtype, ies, seid, seq=4242, cfg=None):
    """history = prefix reaching `state` on connection 0, the injected datagram, then probes:
    heartbeat on the same and on another connection and a complete establish/delete on connection 1"""
    rng = random.Random("c01-fixed")
    g = l1.Gen(rng, cfg or l1.default_cfg())
    lseid = None
    if state != "fresh":
        g.setup(0)
        g.pfd(0, {"app1": ["permit in ip from any to assigned", "permit out ip from any to assigned"]})
    if state in ("session", "after_reject"):
        lseid = g.establish(0, npairs=1, nqers=2, chv4=True, choose=True)
    if state == "session_nopdr":
        seq0 = g._seq()
        g.emit(0, P.message(P.SE_REQ, seq0, [P.node_id_v4(l1.peer_ip(0)), P.fseid(5, l1.peer_ip(0))], seid=0),
               {"op": "est", "seq": seq0, "req": P.SE_REQ, "wf": True, "expect": "accept", "lseid": 1000001, "cp_seid": 5, "pdrs": [], "fars": [], "qers": []})
        lseid = 1000001
    if state == "after_reject":
        g.modify(424242, conn=0)
    if state == "released":
        g.release(0)
    n_prefix = len(g.events)
    # the injected datagram: header SEID = the live session where there is one
    s = seid
    if seid is not None and seid != 0 and lseid is not None:
        s = lseid
    raw = P.message(mtype, seq, ies, seid=s)
    g.events.append({"k": "msg", "conn": 0, "hex": raw.hex(), "draws": []})
    g.intents.append({"op": "inject", "seq": seq, "req": mtype, "wf": False, "conn": 0})
    return g, n_prefix


def add_probes(g):
    """valid requests that must be processed normally afterwards"""
    start = len(g.events)
    g.heartbeat(0)
    g.heartbeat(1)
    g.setup(1)
    g.sessions = {}          # probes are judged on their own: forget the view of connection 0
    l = g.establish(1, npairs=1, nqers=1, chv4=True, choose=True)
    g.delete(l)
    for it in g.intents[start:]:
        it["probe"] = True
    return start


def injected_cases(rng, tier):
    """-> list of (key, case, intents, index of injected event, probe start)"""
    out = []
    for state in STATES:
        g0, _ = build_case(state, P.HB_REQ, b"", None)
        lseid = 1000001
        for name, mtype, ies, seid in base_messages(g0, lseid):
            tree = parse(ies)
            muts = [("valid", (), tree)] + mutants(tree)
            for kind, path, m in muts:
                out.append(((state, name, kind, path), state, mtype, ser(m), seid))
    cases = []
    for key, state, mtype, ies, seid in out:
        g, n_prefix = build_case(state, mtype, ies, seid)
        ps = add_probes(g)
        cases.append((key, {"cfg": g.cfg, "events": g.events}, g.intents, n_prefix, ps))
    return cases


def garbage_cases(rng, n):
    """random bytes, bit-flipped and length-corrupted valid datagrams"""
    g0, _ = build_case("session", P.HB_REQ, b"", None)
    bases = [P.message(t, 77, ies, seid=s) for _, t, ies, s in base_messages(g0, 1000001)]
    cases = []
    for k in range(n):
        r = rng.random()
        if r < 0.25:
            raw = bytes(rng.randrange(256) for _ in range(rng.choice([0, 1, 3, 4, 8, 12, 16, 40, 200])))
        elif r < 0.4:
            raw = bytes([0x20 | rng.randrange(2), rng.choice([1, 2, 3, 5, 6, 9, 50, 52, 54, 57, 99])]) + bytes(rng.randrange(256) for _ in range(rng.choice([2, 6, 10, 14, 30])))
        else:
            b = bytearray(rng.choice(bases))
            for _ in range(rng.choice([1, 1, 2, 5])):
                kind = rng.random()
                if kind < 0.5 and b:
                    i = rng.randrange(len(b))
                    b[i] ^= 1 << rng.randrange(8)
                elif kind < 0.7 and len(b) > 4:
                    del b[rng.randrange(4, len(b)):]
                elif kind < 0.85 and len(b) > 4:
                    b[2:4] = struct.pack("!H", rng.choice([0, 1, len(b) - 5, len(b) - 3, len(b) + 5, 65535]))
                else:
                    i = rng.randrange(len(b) + 1)
                    b[i:i] = bytes(rng.randrange(256) for _ in range(rng.randrange(1, 6)))
            raw = bytes(b)
        state = rng.choice(["associated", "session", "fresh"])
        g, n_prefix = build_case(state, P.HB_REQ, b"", None)
        g.events[-1]["hex"] = raw.hex()
        req, seq = None, None
        if len(raw) >= 8:
            req = raw[1]
            off = 12 if raw[0] & 1 else 4
            if len(raw) >= off + 3:
                seq = int.from_bytes(raw[off:off + 3], "big")
        g.intents[-1].update(op="garbage", req=req, seq=seq)
        ps = add_probes(g)
        cases.append((("garbage", k), {"cfg": g.cfg, "events": g.events}, g.intents, n_prefix, ps))
    return cases
