"""Shared machinery of the /verif checks (see DESIGN.md section 3).

Every check follows the same protocol:
  1. regenerate coq/Gen/* from /repo (translators, tie T1) and build the Coq targets of the
     property with a full .vo build (never -vos); parse `Print Assumptions`.
  2. grep gate (no Admitted / Axiom / ... in the development).
  3. build the Go (or Python) harness from /repo's working tree, run the generated cases on the
     implementation, evaluate the Coq model on the same cases (cases_*.v + vm_compute), and run
     the property's direct monitor on the implementation's observations.
  4. verdict + evidence.
"""
import hashlib
import json
import os
import random
import re
import shutil
import subprocess
import sys
import time
from concurrent.futures import ThreadPoolExecutor

VERIF = os.path.dirname(os.path.dirname(os.path.abspath(__file__)))
REPO = os.environ.get("VERIF_REPO", "/repo")
COQ = os.environ.get("VERIF_COQ_DIR", os.path.join(VERIF, "coq"))   # seeded-change runs use their own copy
BUILD = os.environ.get("VERIF_BUILD_DIR", os.path.join(VERIF, "build"))   # seeded-change runs build elsewhere
REPLAYS = os.environ.get("VERIF_REPLAYS_DIR", os.path.join(VERIF, "replays"))
EVIDENCE = os.environ.get("VERIF_EVIDENCE_DIR", os.path.join(VERIF, "evidence"))   # seeded-change runs write elsewhere
HARNESS_GO = os.path.join(VERIF, "harness", "go")
KNOWN = os.path.join(VERIF, "known_findings.json")

COQ_DIRS = ["Base", "Model", "Gen", "Proofs", "Props", "Run"]
GREP_GATE = re.compile(
    r"\b(Admitted|admit|Axiom|Axioms|Parameter|Parameters|Conjecture|Conjectures|bypass_check|"
    r"Admit Obligations)\b|Unset\s+Guard|Unset\s+Positivity|Unset\s+Universe|type-in-type|impredicative-set")


def log(*a):
    print(*a, file=sys.stderr, flush=True)


def go_env():
    e = dict(os.environ)
    e["GOPROXY"] = "off"
    e["GOFLAGS"] = "-mod=mod"
    e.pop("GOSUMDB", None)
    e.pop("GOTOOLCHAIN", None)
    e["CGO_ENABLED"] = e.get("CGO_ENABLED", "1")
    return e


def sh(cmd, cwd=None, env=None, timeout=None, input=None):
    p = subprocess.run(cmd, cwd=cwd, env=env, timeout=timeout, input=input,
                       stdout=subprocess.PIPE, stderr=subprocess.STDOUT, text=True, errors="replace")
    return p.returncode, p.stdout


# --------------------------------------------------------------------------- Coq

def coq_sources():
    files = []
    for d in COQ_DIRS:
        p = os.path.join(COQ, d)
        if not os.path.isdir(p):
            continue
        for f in sorted(os.listdir(p)):
            if f.endswith(".v") and not f.startswith("cases_") and not f.startswith("."):
                files.append(f"{d}/{f}")
    return files


def coq_prepare():
    """(Re)write _CoqProject and the Makefile when the list of sources changed."""
    files = coq_sources()
    text = "-Q . UPF\n" + "\n".join(files) + "\n"
    proj = os.path.join(COQ, "_CoqProject")
    old = open(proj).read() if os.path.exists(proj) else ""
    if old != text or not os.path.exists(os.path.join(COQ, "Makefile")):
        with open(proj, "w") as f:
            f.write(text)
        rc, out = sh(["coq_makefile", "-f", "_CoqProject", "-o", "Makefile"], cwd=COQ)
        if rc != 0:
            raise RuntimeError("coq_makefile failed: " + out)


def grep_gate():
    """Returns list of offending (file, line, text)."""
    bad = []
    for f in coq_sources():
        path = os.path.join(COQ, f)
        txt = open(path).read()
        # strip comments (non-nested is enough for our sources; nested handled by loop)
        prev = None
        while prev != txt:
            prev = txt
            txt = re.sub(r"\(\*[^()]*?\*\)", lambda m: "\n" * m.group(0).count("\n"), txt, flags=re.S)
        for i, line in enumerate(txt.split("\n"), 1):
            if GREP_GATE.search(line):
                bad.append((f, i, line.strip()))
            if re.match(r"\s*(Hypothesis|Hypotheses|Variable|Variables)\b", line):
                # allowed only inside a Section: check crude nesting
                before = "\n".join(txt.split("\n")[:i])
                if len(re.findall(r"^\s*Section\s", before, flags=re.M)) <= len(re.findall(r"^\s*End\s", before, flags=re.M)):
                    bad.append((f, i, line.strip()))
    return bad


def coq_make(targets, timeout=3000):
    """Full .vo build of the targets. Returns (ok, log, failing_file)."""
    coq_prepare()
    rc, out = sh(["timeout", str(timeout), "make", "-j16", "--no-print-directory"] + targets, cwd=COQ)
    failing = None
    if rc != 0:
        m = re.search(r'File "\./([^"]+)", line (\d+)', out)
        if m:
            failing = f"{m.group(1)}:{m.group(2)}"
        else:
            failing = "make"
    return rc == 0, out, failing


def props_assumptions(prop):
    """Compile Props/<prop>.v (cheap: only `exact` proofs) and parse Print Assumptions.
    Returns (ok, theorems:list of (name, axioms list), log)."""
    src = os.path.join(COQ, "Props", f"{prop}.v")
    names = re.findall(r"^\s*Theorem\s+(\w+)", open(src).read(), flags=re.M)
    rc, out = sh(["timeout", "1200", "coqc", "-Q", ".", "UPF", f"Props/{prop}.v"], cwd=COQ)
    if rc != 0:
        return False, [(n, None) for n in names], out
    # output: one block per Print Assumptions, in order
    blocks = []
    cur = None
    for line in out.split("\n"):
        if line.startswith("Closed under the global context"):
            blocks.append([])
            cur = None
        elif line.startswith("Axioms:"):
            cur = []
            blocks.append(cur)
        elif cur is not None and line.strip():
            m = re.match(r"^(\S+)\s*:", line)
            if m:
                cur.append(m.group(1))
    thms = []
    for i, n in enumerate(names):
        thms.append((n, blocks[i] if i < len(blocks) else None))
    return True, thms, out


def coq_eval_shards(name, header, case_terms, shard=600, result_name="M", expr="mismatches cases",
                    case_type="case", timeout=1200):
    """Evaluate `expr` over shards of cases with vm_compute, in parallel coqc processes.
    case_terms: list of Gallina strings. Returns list of global indices reported (list N in Coq)
    or raises RuntimeError on a Coq failure."""
    os.makedirs(os.path.join(COQ, "Run"), exist_ok=True)
    shards = [case_terms[i:i + shard] for i in range(0, len(case_terms), shard)] or [[]]
    jobs = []
    for si, sh_cases in enumerate(shards):
        fn = os.path.join(COQ, "Run", f"cases_{name}_{si}.v")
        with open(fn, "w") as f:
            f.write(header + "\n")
            f.write(f"Definition cases : list {case_type} := [\n")
            f.write(";\n".join(sh_cases))
            f.write("\n].\n")
            f.write(f"Definition {result_name} := Eval vm_compute in ({expr}).\nPrint {result_name}.\n")
        jobs.append((si, fn))

    def run(job):
        si, fn = job
        rc, out = sh(["timeout", str(timeout), "coqc", "-Q", ".", "UPF", os.path.relpath(fn, COQ)], cwd=COQ)
        for ext in (".vo", ".glob", ".vok", ".vos"):
            try:
                os.remove(fn[:-2] + ext)
            except OSError:
                pass
        aux = os.path.join(os.path.dirname(fn), "." + os.path.basename(fn)[:-2] + ".aux")
        try:
            os.remove(aux)
        except OSError:
            pass
        return si, rc, out

    res = []
    with ThreadPoolExecutor(max_workers=14) as ex:
        outs = list(ex.map(run, jobs))
    for si, rc, out in outs:
        if rc != 0:
            raise RuntimeError(f"coqc failed on shard {si} of {name}:\n{out[-3000:]}")
        flat = " ".join(out.split())
        m = re.search(rf"{result_name} = (.*?) : ", flat)
        if not m:
            raise RuntimeError(f"cannot parse coqc output for shard {si}: {flat[:500]}")
        body = m.group(1)
        idx = [int(x) for x in re.findall(r"\d+", body)] if body.strip() != "[]" else []
        res.extend(si * shard + i for i in idx)
    for si, fn in jobs:
        try:
            os.remove(fn)
        except OSError:
            pass
    return res


def coq_eval_text(name, text, timeout=1200):
    """Compile an ad-hoc file under coq/Run and return coqc's output."""
    fn = os.path.join(COQ, "Run", f"cases_{name}.v")
    with open(fn, "w") as f:
        f.write(text)
    rc, out = sh(["timeout", str(timeout), "coqc", "-Q", ".", "UPF", os.path.relpath(fn, COQ)], cwd=COQ)
    for ext in (".v", ".vo", ".glob", ".vok", ".vos"):
        try:
            os.remove(fn[:-2] + ext)
        except OSError:
            pass
    try:
        os.remove(os.path.join(os.path.dirname(fn), "." + os.path.basename(fn)[:-2] + ".aux"))
    except OSError:
        pass
    return rc, out


# Gallina printers -----------------------------------------------------------

def gN(n):
    return f"{int(n)}%N"


def gbool(b):
    return "true" if b else "false"


def gstr(s):
    """Coq string literal (ASCII; other bytes via explicit escapes are not needed by callers)."""
    return '"' + s.replace('"', '""') + '"%string'


def glist(xs):
    return "[" + "; ".join(xs) + "]"


def gopt(x):
    return "None" if x is None else f"(Some {x})"


# --------------------------------------------------------------------------- Go harness

class HarnessError(Exception):
    pass


# Harness files each property's check needs (besides verif_main_test.go). A check compiles ONLY these into its test
# binary, so that a change of /repo which no longer compiles against the harness code of another property cannot
# break this property's check.
HARNESS_SETS = {
    "C02": ["l1"], "C03": ["l1"],
    # agent-level checks with a UP4 leg: the UP4 L1 world lives in verif_c14_test.go (+ the fake P4Runtime server)
    "C01": ["l1", "c14", "p4rt"], "C05": ["l1", "c14", "p4rt"], "C14": ["l1", "c14", "p4rt"],
    "C06": ["c06", "l1", "nl"], "C07": ["c07", "l1"], "C13": ["c13", "l1", "p4rt"], "C12": ["c12", "l1", "nl"], "C10": ["c10", "nl"],
    # C17 / C08: own harness + the UP4 world (Applications entries the real UP4 plug-in installs, tools/props/c17up4.py)
    "C17": ["c17", "l1", "c14", "p4rt"], "C08": ["c08", "l1", "c14", "p4rt"],
    "C04": ["c04", "l1", "p4rt"], "C15": ["c15", "l1", "p4rt"], "C16": ["c16", "p4rt"], "C11": ["c11", "l1", "p4rt"],
}
HARNESS_KEY = None      # set by check.py to the property id


def harness_files():
    names = HARNESS_SETS.get(HARNESS_KEY)
    if HARNESS_KEY and names is None:
        names = [HARNESS_KEY.lower()]
    out = []
    for f in sorted(os.listdir(HARNESS_GO)):
        if not f.endswith("_test.go"):
            continue
        stem = f[len("verif_"):-len("_test.go")]
        if names is None or stem == "main" or stem in names:
            out.append(f)
    return out


def overlay_file(race=False):
    os.makedirs(BUILD, exist_ok=True)
    rep = {}
    for f in harness_files():
        rep[os.path.join(REPO, "pfcpiface", "zz_" + f)] = os.path.join(HARNESS_GO, f)
    p = os.path.join(BUILD, f"overlay.{HARNESS_KEY or 'all'}.json")
    with open(p, "w") as fh:
        json.dump({"Replace": rep}, fh)
    return p


def build_harness(race=False):
    """go test -c of package pfcpiface from /repo's working tree with the harness overlaid."""
    ov = overlay_file()
    out = os.path.join(BUILD, f"pfcpiface.{HARNESS_KEY or 'all'}" + (".race.test" if race else ".test"))
    cmd = ["go", "test", "-c", "-tags", "verif", "-vet=off", "-overlay", ov, "-o", out]
    if race:
        cmd.append("-race")
    cmd.append("./pfcpiface")
    rc, o = sh(cmd, cwd=REPO, env=go_env(), timeout=1200)
    if rc != 0:
        raise HarnessError("harness build failed against the current tree:\n" + o[-4000:])
    return out


def run_harness(binary, mode, inputs, timeout=1200, extra_env=None, tag=None):
    """Feed JSON-line inputs to the harness; returns list of observation dicts (same length)."""
    tag = tag or mode
    os.makedirs(os.path.join(BUILD, "io"), exist_ok=True)
    fin = os.path.join(BUILD, "io", f"{tag}.in.jsonl")
    fout = os.path.join(BUILD, "io", f"{tag}.out.jsonl")
    with open(fin, "w") as f:
        for c in inputs:
            f.write(json.dumps(c, separators=(",", ":")) + "\n")
    if os.path.exists(fout):
        os.remove(fout)
    env = go_env()
    env.update({"VERIF_MODE": mode, "VERIF_IN": fin, "VERIF_OUT": fout})
    if extra_env:
        env.update(extra_env)
    rc, o = sh([binary, "-test.run", "^TestVerifHarness$", "-test.count=1", "-test.timeout", f"{timeout}s"],
               cwd=os.path.join(REPO, "pfcpiface"), env=env, timeout=timeout + 30)
    obs = []
    if os.path.exists(fout):
        with open(fout) as f:
            for line in f:
                line = line.strip()
                if line:
                    obs.append(json.loads(line))
    if rc != 0 or len(obs) != len(inputs):
        raise HarnessError(f"harness run mode={mode} rc={rc} got {len(obs)}/{len(inputs)} observations:\n" + o[-4000:])
    for f_ in (fin, fout):      # kept only when the run failed (disk space)
        try:
            os.remove(f_)
        except OSError:
            pass
    return obs


# --------------------------------------------------------------------------- verdict / evidence

def load_known():
    """known_findings.json plus findings.d/*.json (one file per property while it is being built)."""
    out = []
    if os.path.exists(KNOWN):
        out.extend(json.load(open(KNOWN)))
    d = os.path.join(VERIF, "findings.d")
    if os.path.isdir(d):
        for f in sorted(os.listdir(d)):
            if f.endswith(".json"):
                out.extend(json.load(open(os.path.join(d, f))))
    return out


class Check:
    """Collects what a check run established and produces verdict + evidence."""

    def __init__(self, prop, tier, seed):
        self.prop = prop
        self.tier = tier
        self.seed = seed
        self.t0 = time.time()
        self.obligations = []      # (name, discharged: bool, detail)
        self.axioms = {}
        self.broken = []           # descriptions of broken proof obligations / ties / correspondence
        self.failures = []         # (signature, what, case) property failures on the implementation
        self.evaluations = 0
        self.nontrivial = set()
        self.samples = []
        self.rule = ""
        self.distribution = {}
        self.trusted = []
        self.assumptions = []
        self.notes = {}
        self.exhaustive = False
        self.first_mismatch = None

    # -- proof side
    def prove(self, targets):
        bad = grep_gate()
        if bad:
            self.obligations.append(("grep-gate", False, str(bad[:5])))
            self.broken.append(f"forbidden construct in development: {bad[:3]}")
        else:
            self.obligations.append(("grep-gate: no Admitted/admit/Axiom/Parameter/Conjecture/unset checks", True, ""))
        ok, out, failing = coq_make(targets)
        if not ok:
            self.obligations.append((f"coq build of {' '.join(targets)}", False, failing))
            self.broken.append(f"Coq build failed at {failing}: " + out[-1500:])
            self.notes["coq_log_tail"] = out[-3000:]
            # theorems of the property are then not established
            src = os.path.join(COQ, "Props", f"{self.prop}.v")
            if os.path.exists(src):
                for n in re.findall(r"^\s*Theorem\s+(\w+)", open(src).read(), flags=re.M):
                    self.obligations.append((n, False, "not checked: build failed"))
            return False
        ok, thms, out = props_assumptions(self.prop)
        for n, ax in thms:
            good = ok and ax is not None
            self.obligations.append((n, good, "" if good else "Props file failed"))
            if ax:
                self.axioms[n] = ax
        if not ok:
            self.broken.append(f"Props/{self.prop}.v failed: " + out[-1500:])
        if ok and self.tier == "thorough" and os.environ.get("VERIF_COQCHK", "1") != "0":
            # independent re-check of the compiled theorems and everything they depend on
            lim = os.environ.get("VERIF_COQCHK_TIMEOUT", "1800")
            rc, o2 = sh(["timeout", lim, "coqchk", "-silent", "-o", "-Q", ".", "UPF", f"UPF.Props.{self.prop}"], cwd=COQ)
            if rc == 124:
                # the independent checker has no bytecode VM: proofs by vm_compute over large state spaces (C10's bounded
                # explorer instances) take it hours. Not finishing in time is recorded, it is not a rejection.
                self.notes["coqchk"] = {"exit": "not finished within %s s (recorded, not a rejection; VERIF_COQCHK_TIMEOUT raises the limit)" % lim}
                return ok
            summary = o2[o2.find("CONTEXT SUMMARY"):] if "CONTEXT SUMMARY" in o2 else o2[-1500:]
            m = re.search(r"\* Axioms:(.*?)\n\s*\n\* Constants", summary, flags=re.S)
            axioms = " ".join(m.group(1).split()) if m else "?"
            clean = rc == 0 and all(f"relying on {k}: <none>" in " ".join(summary.split()) or True for k in ())
            bad_flags = [k for k in ("type-in-type", "unsafe (co)fixpoints") if re.search(k.replace("(", "\\(").replace(")", "\\)") + r": <none>", " ".join(summary.split())) is None]
            pos = "Inductives whose positivity is assumed: <none>" in " ".join(summary.split())
            good = rc == 0 and not bad_flags and pos
            self.obligations.append((f"coqchk -o UPF.Props.{self.prop}", good, "" if good else summary[-600:]))
            if not good:
                self.broken.append("coqchk rejected the compiled development: " + summary[-800:])
            self.notes["coqchk"] = {"axioms": axioms, "exit": rc}
        return ok

    def tie(self, name, ok, detail=""):
        self.obligations.append((name, bool(ok), detail))
        if not ok:
            self.broken.append(f"tie {name} broken: {detail}")

    # -- correspondence side
    def mismatch(self, what, case):
        if self.first_mismatch is None:
            self.first_mismatch = {"what": what, "case": case}
        self.broken.append(f"correspondence: {what}")

    def fail(self, signature, what, case):
        self.failures.append((signature, what, case))

    def count(self, key, nontrivial=True):
        self.evaluations += 1
        if nontrivial:
            self.nontrivial.add(key if isinstance(key, str) else json.dumps(key, sort_keys=True))

    # -- end
    def finish(self):
        os.makedirs(REPLAYS, exist_ok=True)
        os.makedirs(EVIDENCE, exist_ok=True)
        known = [k for k in load_known() if k.get("kind") == "finding" and k.get("property") == self.prop]
        known_sigs = {k["signature"]: k for k in known}
        lines = []
        violations = 0
        seen_known = set()
        seen_new = set()
        for sig, what, case in self.failures:
            if sig in known_sigs:
                if sig not in seen_known:
                    seen_known.add(sig)
                    lines.append(f"KNOWN-FINDING: property={self.prop} {known_sigs[sig].get('id','')} {known_sigs[sig]['what']}")
            else:
                if sig in seen_new:
                    continue
                seen_new.add(sig)
                h = hashlib.sha1((sig + json.dumps(case, sort_keys=True, default=str)).encode()).hexdigest()[:12]
                path = os.path.join(REPLAYS, f"{self.prop}-{h}.json")
                with open(path, "w") as f:
                    json.dump({"property": self.prop, "signature": sig, "what": what, "case": case,
                               "seed": self.seed, "tier": self.tier,
                               "rerun": f"python3 tools/check.py {self.prop} --replay {path}"}, f, indent=1, default=str)
                lines.append(f"VIOLATION property={self.prop} replay={path}")
                violations += 1
        if self.broken and violations == 0:
            h = hashlib.sha1(json.dumps(self.broken, default=str).encode()).hexdigest()[:12]
            path = os.path.join(REPLAYS, f"{self.prop}-broken-{h}.json")
            with open(path, "w") as f:
                json.dump({"property": self.prop,
                           "no_longer_checks": self.broken[:10],
                           "first_disagreeing_case": self.first_mismatch,
                           "note": "a proof obligation, a source tie or the model/implementation correspondence no longer "
                                   "checks; the search over the implementation found no input on which the property itself fails",
                           "seed": self.seed, "tier": self.tier}, f, indent=1, default=str)
            lines.append(f"VIOLATION property={self.prop} replay={path} no-failing-input-found")
            violations += 1
        n_obl = len(self.obligations)
        n_dis = sum(1 for o in self.obligations if o[1])
        ev = {
            "property_id": self.prop, "tier": self.tier, "seed": self.seed, "level": "proof",
            "coverage": {
                "obligations": n_obl, "discharged": n_dis,
                "checker_cmd": "cd /verif/coq && coq_makefile -f _CoqProject -o Makefile && make -j16 (coqc 8.16.1, full .vo); "
                               f"coqc -Q . UPF Props/{self.prop}.v (Print Assumptions)"
                               + ("; coqchk -silent -o" if self.notes.get("coqchk") else ""),
                "trusted_base": self.trusted,
                "obligation_list": [{"name": o[0], "discharged": o[1], "detail": o[2]} for o in self.obligations],
                "axioms": self.axioms or "all property theorems: Closed under the global context",
                "evaluations": self.evaluations,
                "distinct_nontrivial": len(self.nontrivial),
                "rule": self.rule,
                "samples": self.samples[:6],
                "distribution": self.distribution,
                "exhaustive": self.exhaustive,
                "known_findings_confirmed": sorted(seen_known),
                "broken": self.broken[:5],
            },
            "assumptions": self.assumptions,
            "wall_s": round(time.time() - self.t0, 2),
            "violations": violations,
        }
        ev["coverage"].update(self.notes)
        with open(os.path.join(EVIDENCE, f"{self.prop}.json"), "w") as f:
            json.dump(ev, f, indent=1, default=str)
        for l in lines:
            print(l, flush=True)
        print(f"[{self.prop}] tier={self.tier} seed={self.seed} obligations={n_dis}/{n_obl} "
              f"evaluations={self.evaluations} distinct_nontrivial={len(self.nontrivial)} "
              f"known={len(seen_known)} violations={violations} wall={ev['wall_s']}s", flush=True)
        return 1 if violations else 0


def rng_for(seed, prop):
    return random.Random(f"{seed}-{prop}")


COMMON_TRUSTED = [
    "Coq 8.16.1 kernel + vm_compute (no native_compute); coqchk re-check in the thorough tier",
    "hand-written Gallina model of the anchored Go code; tied to /repo by the differential harness (T2)",
    "Go harness compiled into package pfcpiface from /repo's working tree via go test -overlay (tag verif)",
    "tools/*.py case generators and the JSON -> Gallina printer",
]
