#!/usr/bin/env python3
"""Writes /verif/MANIFEST.json from the table below (kept in one place so it is always valid)."""
import json
import os

VERIF = os.path.dirname(os.path.dirname(os.path.abspath(__file__)))
ALL = [f"C{i:02d}" for i in range(1, 21)]

CLAIMED = {
    "C06": {
        "text": "Coq theorems about an executable model of ip_pool.go for every prefix /1../30, every base and every alloc/release "
                "sequence: conservation (free ++ held is a permutation of the pool at every reachable state), addresses strictly "
                "between network and broadcast, exclusivity, stickiness, exact release, refusal iff nothing is free (then every "
                "address is held); every interleaving of the atomic methods is an op sequence, so the invariant covers all schedules. "
                "Tie: differential run (results, FIFO free list, inventory) incl. all sequences <= 5 (7 thorough) ops on a /30, random "
                "pools, and a race-detector stress with linearization-free oracles.",
        "design_ref": "DESIGN.md section 5, C06",
        "note": "Trusted: Coq kernel, Model/IPPool.v (Go map as unique-key association list; net.ParseCIDR outside the model), overlay "
                "harness. Atomicity of methods is a syntactic source tie + race detector, not a proof about the Go memory model. No axioms.",
        "technique": "Coq proof (permutation invariant by induction over operation sequences) + differential correspondence",
    },
    "C17": {
        "text": "Coq theorems over all 2^32 (lo,hi), all ports and both strategies: accepted expansions are exact and pairwise "
                "disjoint (count = 1 inside, 0 outside), Exact refuses iff a true range is wider than 100, Ternary never refuses, "
                "products are exact, refused iff unrepresentable, zero masks only for the wildcard denotation. The hand-written "
                "model is tied to parse_pdr.go by a differential run (vm_compute in Coq vs. the Go functions) on boundary-class "
                "and random ranges; thorough adds an implementation-side exhaustive tiling sweep of all 2.1e9 ranges.",
        "design_ref": "DESIGN.md section 5, C17",
        "note": "Trusted: Coq kernel/vm_compute, the hand-written model Model/PortRange.v (uint16 as N mod 2^16, fuel proved sufficient), "
                "the overlay harness and case generator. No axioms (Print Assumptions: closed).",
        "technique": "Coq proof (induction + invariant of the mask loop) with differential model/implementation correspondence",
    },
}

NOT_YET = "check not built yet in this revision of /verif (work in progress; see DESIGN.md section 8 for the order)"


def main():
    checks = []
    for p in ALL:
        if p not in CLAIMED:
            continue
        c = CLAIMED[p]
        checks.append({
            "property_id": p,
            "quick_cmd": f"python3 tools/check.py {p} --tier quick",
            "thorough_cmd": f"python3 tools/check.py {p} --tier thorough",
            "evidence_file": f"/verif/evidence/{p}.json",
            "replay_cmd_template": f"python3 tools/check.py {p} --replay {{path}}",
            "engine": "coq+harness",
            "level_claimed": {"category": "proof", "text": c["text"], "design_ref": c["design_ref"]},
            "level_note": c["note"],
            "technique": c["technique"],
        })
    m = {
        "version": 1,
        "setup_cmd": "python3 tools/check.py --setup",
        "hooks": {
            "guard": "verif (Go build tag) + go test -overlay /verif/build/overlay.json; harness sources stay in /verif/harness/go, nothing is added to /repo",
            "enable": "cd /repo && GOPROXY=off GOFLAGS=-mod=mod go test -c -tags verif -vet=off -overlay /verif/build/overlay.json -o /verif/build/pfcpiface.test ./pfcpiface",
            "baseline_off_cmd": "cd /repo && GOPROXY=off GOFLAGS=-mod=mod go test -vet=off -count=1 ./...",
            "source_commits": [],
            "add_only": True,
        },
        "engines": [
            {"name": "coq+harness", "path": "/verif/tools/check.py",
             "serves_properties": sorted(CLAIMED),
             "kind_free_text": "Coq 8.16.1 development under /verif/coq (models, proofs, property theorems) + differential "
                               "correspondence harness (Go test binary overlaid into package pfcpiface; Python for route_control.py)"},
        ],
        "checks": checks,
        "notes": "All checks: python3 tools/check.py Cxx --tier quick|thorough; VERIF_SEED respected; evidence in /verif/evidence.",
        "not_applicable": [{"property_id": p, "reason": NOT_YET} for p in ALL if p not in CLAIMED],
    }
    with open(os.path.join(VERIF, "MANIFEST.json"), "w") as f:
        json.dump(m, f, indent=1)
        f.write("\n")


if __name__ == "__main__":
    main()
