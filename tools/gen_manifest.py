#!/usr/bin/env python3
"""Writes /verif/MANIFEST.json from tools/claims/Cxx.json (one file per claimed property:
{"text", "design_ref", "note", "technique"}) so the manifest is always valid and merges stay trivial.
Properties without a claim file are listed under not_applicable with the reason in NOT_YET or
tools/claims/Cxx.na (a one-line reason)."""
import json
import os

VERIF = os.path.dirname(os.path.dirname(os.path.abspath(__file__)))
ALL = [f"C{i:02d}" for i in range(1, 21)]
NOT_YET = "check not built yet in this revision of /verif (work in progress; see DESIGN.md section 8 for the order)"


def main():
    claimed = {}
    for p in ALL:
        f = os.path.join(VERIF, "tools", "claims", p + ".json")
        if os.path.exists(f):
            claimed[p] = json.load(open(f))
    checks = []
    for p in ALL:
        if p not in claimed:
            continue
        c = claimed[p]
        checks.append({
            "property_id": p,
            "quick_cmd": f"python3 tools/check.py {p} --tier quick",
            "thorough_cmd": f"python3 tools/check.py {p} --tier thorough",
            "evidence_file": f"/verif/evidence/{p}.json",
            "replay_cmd_template": f"python3 tools/check.py {p} --replay {{path}}",
            "engine": "coq+harness",
            "level_claimed": {"category": "proof", "text": c["text"], "design_ref": c["design_ref"]},
            "level_note": c["note"],
            "technique": c["technique"],
        })
    na = []
    for p in ALL:
        if p in claimed:
            continue
        f = os.path.join(VERIF, "tools", "claims", p + ".na")
        na.append({"property_id": p, "reason": open(f).read().strip() if os.path.exists(f) else NOT_YET})
    m = {
        "version": 1,
        "setup_cmd": "python3 tools/check.py --setup",
        "hooks": {
            "guard": "verif (Go build tag) + go test -overlay /verif/build/overlay.<property>.json (written by tools/lib.py for each check from its subset of /verif/harness/go/*_test.go); harness sources stay in /verif/harness/go, nothing is added to /repo",
            "enable": "cd /repo && GOPROXY=off GOFLAGS=-mod=mod go test -c -tags verif -vet=off -overlay /verif/build/overlay.<property>.json -o /verif/build/pfcpiface.<property>.test ./pfcpiface   (done by every check itself: lib.build_harness)",
            "baseline_off_cmd": "cd /repo && GOPROXY=off GOFLAGS=-mod=mod go test -vet=off -count=1 ./cmd/... ./internal/... ./pfcpiface/... ./pkg/...",
            "source_commits": [],
            "add_only": True,
        },
        "engines": [
            {"name": "coq+harness", "path": "/verif/tools/check.py",
             "serves_properties": sorted(claimed),
             "kind_free_text": "Coq 8.16.1 development under /verif/coq (models, proofs, property theorems) + differential "
                               "correspondence harness (Go test binary overlaid into package pfcpiface; Python for route_control.py)"},
        ],
        "checks": checks,
        "notes": "All checks: python3 tools/check.py Cxx --tier quick|thorough; VERIF_SEED respected; evidence in /verif/evidence.",
        "not_applicable": na,
    }
    with open(os.path.join(VERIF, "MANIFEST.json"), "w") as f:
        json.dump(m, f, indent=1)
        f.write("\n")


if __name__ == "__main__":
    main()
