#!/usr/bin/env python3
"""Regression over the stored seeded changes: every seeded/<name>/patch.diff is applied in a scratch worktree of /repo
(own build and Coq directories), the repository suite and the demonstration are run, and the property's quick check
must report a VIOLATION. Updates "check_result" / "validated" / "revalidated_at" in each meta.json and prints a summary.

  python3 tools/seedcheck_all.py [-j 4] [names...]
"""
import argparse
import json
import os
import subprocess
import sys
from concurrent.futures import ThreadPoolExecutor

V = os.path.dirname(os.path.dirname(os.path.abspath(__file__)))


def one(name):
    d = os.path.join(V, "seeded", name)
    meta = json.load(open(os.path.join(d, "meta.json")))
    prop = meta["property"]
    checks = ",".join(meta.get("check_result", {}).keys()) or prop
    wt = f"/tmp/rw-sc-{name}"
    out = subprocess.run([sys.executable, os.path.join(V, "tools", "seedtest.py"), d, prop, "--worktree", wt, "--checks", checks],
                         cwd=V, stdout=subprocess.PIPE, stderr=subprocess.STDOUT, text=True, errors="replace").stdout
    subprocess.run(["git", "-C", "/repo", "worktree", "remove", "--force", wt], stdout=subprocess.DEVNULL, stderr=subprocess.DEVNULL)
    subprocess.run(["rm", "-rf", os.path.join(V, "build", "seed-" + os.path.basename(wt))])
    try:
        j = json.loads(out[out.index('{\n "dir"'):])
    except ValueError:
        return name, None, out[-500:]
    head = subprocess.check_output(["git", "-C", "/repo", "log", "--oneline", "-1"], text=True).split()[0]
    meta["validated"] = {"patch_applies": j.get("applies"), "existing_suite_passes_with_patch": j.get("suite_passes"),
                         "demo_passes_on_clean_tree": j.get("demo_clean_passes"), "demo_fails_with_patch": j.get("demo_fails_with_patch")}
    if j.get("checks"):
        meta["check_result"] = {c: {"violation_reported": r["violation"], "lines": r["lines"]} for c, r in j["checks"].items()}
    meta["revalidated_at"] = head
    json.dump(meta, open(os.path.join(d, "meta.json"), "w"), indent=1)
    ok = bool(j.get("applies")) and bool(j.get("suite_passes")) and any(r["violation"] for r in j.get("checks", {}).values())
    return name, ok, {"applies": j.get("applies"), "suite": j.get("suite_passes"), "demo": (j.get("demo_clean_passes"), j.get("demo_fails_with_patch")),
                      "reported": {c: r["violation"] for c, r in j.get("checks", {}).items()}}


def main():
    ap = argparse.ArgumentParser()
    ap.add_argument("-j", type=int, default=4)
    ap.add_argument("names", nargs="*")
    a = ap.parse_args()
    names = a.names or sorted(n for n in os.listdir(os.path.join(V, "seeded")) if os.path.exists(os.path.join(V, "seeded", n, "meta.json"))
                              and "superseded" not in json.load(open(os.path.join(V, "seeded", n, "meta.json"))))
    bad = 0
    with ThreadPoolExecutor(max_workers=a.j) as ex:
        for name, ok, info in ex.map(one, names):
            print(name, "OK" if ok else "NOT-REPORTED", info, flush=True)
            bad += 0 if ok else 1
    print(f"{len(names) - bad} of {len(names)} seeded changes reported")
    sys.exit(1 if bad else 0)


if __name__ == "__main__":
    main()
